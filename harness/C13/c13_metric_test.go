package transform

// C13 — OTLP metric data is encoded faithfully. This file is used unchanged in the HTTP and in
// the gRPC copy of the generated metric transform (both are `package transform`).
//
// Every enumerated metricdata.ResourceMetrics goes through the real ResourceMetrics transform,
// a wire marshal/unmarshal and a decode into neutral items (one per metric, with per-point
// sub-lists keyed by the point's attribute set) that is compared, as a multiset, with neutral
// items derived from the metricdata structures by the harness.

import (
	"encoding/hex"
	"fmt"
	"math"
	"strconv"
	"strings"
	"testing"
	"time"

	mpb "go.opentelemetry.io/proto/otlp/metrics/v1"
	"google.golang.org/protobuf/proto"

	"go.opentelemetry.io/otel/attribute"
	"go.opentelemetry.io/otel/sdk/instrumentation"
	"go.opentelemetry.io/otel/sdk/metric/metricdata"
	"go.opentelemetry.io/otel/sdk/resource"
	"verif/mc/enum"
)

// ---------------------------------------------------------------------------- neutral form

// pointRec collects the per-point sub-fields of one metric: name -> list of "pointkey→value".
type pointRec struct {
	names []string
	m     map[string][]string
}

var pointFields = []string{
	"point.attributes", "point.start", "point.time", "point.value", "point.exemplars",
	"hist.count", "hist.sum", "hist.min", "hist.max", "hist.bounds", "hist.bucket_counts",
	"exphist.scale", "exphist.zero_count", "exphist.zero_threshold", "exphist.positive", "exphist.negative",
	"summary.quantiles",
}

func newPointRec() *pointRec { return &pointRec{names: pointFields, m: map[string][]string{}} }

func (p *pointRec) add(pk, field, val string) { p.m[field] = append(p.m[field], pk+"→"+val) }

func (p *pointRec) fields(n int) []kv {
	out := []kv{{K: "point_count", V: strconv.Itoa(n)}}
	for _, name := range p.names {
		out = append(out, kv{K: name, V: "[" + joinSorted(append([]string(nil), p.m[name]...)) + "]"})
	}
	return out
}

func numStr[N int64 | float64](v N) string {
	switch x := any(v).(type) {
	case int64:
		return fmt.Sprintf("int:%d", x)
	case float64:
		return "dbl:" + fb(x)
	}
	return "?"
}

func u64s(xs []uint64) string {
	ss := make([]string, len(xs))
	for i, x := range xs {
		ss[i] = strconv.FormatUint(x, 10)
	}
	return "[" + strings.Join(ss, " ") + "]"
}

func f64s(xs []float64) string {
	ss := make([]string, len(xs))
	for i, x := range xs {
		ss[i] = fb(x)
	}
	return "[" + strings.Join(ss, " ") + "]"
}

func xExtrema[N int64 | float64](e metricdata.Extrema[N]) string {
	if v, ok := e.Value(); ok {
		return fb(float64(v)) // OTLP carries min/max/sum of a histogram as doubles
	}
	return "absent"
}

func pOptF(p *float64) string {
	if p == nil {
		return "absent"
	}
	return fb(*p)
}

func xExemplars[N int64 | float64](es []metricdata.Exemplar[N]) string {
	var xs []string
	for _, e := range es {
		xs = append(xs, fmt.Sprintf("(filtered%s time=%s value=%s span=%s trace=%s)", xAttrs(e.FilteredAttributes), xTime(e.Time), numStr(e.Value), hex.EncodeToString(e.SpanID), hex.EncodeToString(e.TraceID)))
	}
	return "[" + joinSorted(xs) + "]"
}

func pExemplars(es []*mpb.Exemplar) string {
	var xs []string
	for _, e := range es {
		v := "none"
		switch x := e.GetValue().(type) {
		case *mpb.Exemplar_AsInt:
			v = fmt.Sprintf("int:%d", x.AsInt)
		case *mpb.Exemplar_AsDouble:
			v = "dbl:" + fb(x.AsDouble)
		}
		xs = append(xs, fmt.Sprintf("(filtered%s time=%s value=%s span=%s trace=%s)", pAttrs(e.GetFilteredAttributes()), pTime(e.GetTimeUnixNano()), v, hex.EncodeToString(e.GetSpanId()), hex.EncodeToString(e.GetTraceId())))
	}
	return "[" + joinSorted(xs) + "]"
}

func xTemporality(t metricdata.Temporality) string {
	switch t {
	case metricdata.DeltaTemporality:
		return "delta"
	case metricdata.CumulativeTemporality:
		return "cumulative"
	}
	return "invalid"
}

func pTemporality(t mpb.AggregationTemporality) string {
	switch t {
	case mpb.AggregationTemporality_AGGREGATION_TEMPORALITY_DELTA:
		return "delta"
	case mpb.AggregationTemporality_AGGREGATION_TEMPORALITY_CUMULATIVE:
		return "cumulative"
	}
	return fmt.Sprintf("enum(%d)", int32(t))
}

func xNumberPoints[N int64 | float64](p *pointRec, dps []metricdata.DataPoint[N]) int {
	for _, d := range dps {
		pk := xAttrs(d.Attributes.ToSlice())
		p.add(pk, "point.attributes", pk)
		p.add(pk, "point.start", xTime(d.StartTime))
		p.add(pk, "point.time", xTime(d.Time))
		p.add(pk, "point.value", numStr(d.Value))
		p.add(pk, "point.exemplars", xExemplars(d.Exemplars))
	}
	return len(dps)
}

func xHistPoints[N int64 | float64](p *pointRec, dps []metricdata.HistogramDataPoint[N]) int {
	for _, d := range dps {
		pk := xAttrs(d.Attributes.ToSlice())
		p.add(pk, "point.attributes", pk)
		p.add(pk, "point.start", xTime(d.StartTime))
		p.add(pk, "point.time", xTime(d.Time))
		p.add(pk, "point.exemplars", xExemplars(d.Exemplars))
		p.add(pk, "hist.count", strconv.FormatUint(d.Count, 10))
		p.add(pk, "hist.sum", fb(float64(d.Sum)))
		p.add(pk, "hist.min", xExtrema(d.Min))
		p.add(pk, "hist.max", xExtrema(d.Max))
		p.add(pk, "hist.bounds", f64s(d.Bounds))
		p.add(pk, "hist.bucket_counts", u64s(d.BucketCounts))
	}
	return len(dps)
}

func xExpPoints[N int64 | float64](p *pointRec, dps []metricdata.ExponentialHistogramDataPoint[N]) int {
	for _, d := range dps {
		pk := xAttrs(d.Attributes.ToSlice())
		p.add(pk, "point.attributes", pk)
		p.add(pk, "point.start", xTime(d.StartTime))
		p.add(pk, "point.time", xTime(d.Time))
		p.add(pk, "point.exemplars", xExemplars(d.Exemplars))
		p.add(pk, "hist.count", strconv.FormatUint(d.Count, 10))
		p.add(pk, "hist.sum", fb(float64(d.Sum)))
		p.add(pk, "hist.min", xExtrema(d.Min))
		p.add(pk, "hist.max", xExtrema(d.Max))
		p.add(pk, "exphist.scale", strconv.Itoa(int(d.Scale)))
		p.add(pk, "exphist.zero_count", strconv.FormatUint(d.ZeroCount, 10))
		p.add(pk, "exphist.zero_threshold", fb(d.ZeroThreshold))
		p.add(pk, "exphist.positive", fmt.Sprintf("%d:%s", d.PositiveBucket.Offset, u64s(d.PositiveBucket.Counts)))
		p.add(pk, "exphist.negative", fmt.Sprintf("%d:%s", d.NegativeBucket.Offset, u64s(d.NegativeBucket.Counts)))
	}
	return len(dps)
}

// expectMetric derives the neutral item of one metric from the metricdata structure.
func expectMetric(res *resource.Resource, sc instrumentation.Scope, m metricdata.Metrics) item {
	p := newPointRec()
	typ, temp, mono, n := "", "n/a", "n/a", 0
	switch a := m.Data.(type) {
	case metricdata.Gauge[int64]:
		typ, n = "gauge", xNumberPoints(p, a.DataPoints)
	case metricdata.Gauge[float64]:
		typ, n = "gauge", xNumberPoints(p, a.DataPoints)
	case metricdata.Sum[int64]:
		typ, temp, mono, n = "sum", xTemporality(a.Temporality), strconv.FormatBool(a.IsMonotonic), xNumberPoints(p, a.DataPoints)
	case metricdata.Sum[float64]:
		typ, temp, mono, n = "sum", xTemporality(a.Temporality), strconv.FormatBool(a.IsMonotonic), xNumberPoints(p, a.DataPoints)
	case metricdata.Histogram[int64]:
		typ, temp, n = "histogram", xTemporality(a.Temporality), xHistPoints(p, a.DataPoints)
	case metricdata.Histogram[float64]:
		typ, temp, n = "histogram", xTemporality(a.Temporality), xHistPoints(p, a.DataPoints)
	case metricdata.ExponentialHistogram[int64]:
		typ, temp, n = "exponential_histogram", xTemporality(a.Temporality), xExpPoints(p, a.DataPoints)
	case metricdata.ExponentialHistogram[float64]:
		typ, temp, n = "exponential_histogram", xTemporality(a.Temporality), xExpPoints(p, a.DataPoints)
	case metricdata.Summary:
		typ, n = "summary", len(a.DataPoints)
		for _, d := range a.DataPoints {
			pk := xAttrs(d.Attributes.ToSlice())
			p.add(pk, "point.attributes", pk)
			p.add(pk, "point.start", xTime(d.StartTime))
			p.add(pk, "point.time", xTime(d.Time))
			p.add(pk, "hist.count", strconv.FormatUint(d.Count, 10))
			p.add(pk, "hist.sum", fb(d.Sum))
			var qs []string
			for _, q := range d.QuantileValues {
				qs = append(qs, fb(q.Quantile)+"="+fb(q.Value))
			}
			p.add(pk, "summary.quantiles", "["+joinSorted(qs)+"]")
		}
	default:
		panic(fmt.Sprintf("harness: aggregation %T not modelled", m.Data))
	}
	f := []kv{
		{K: "name", V: short(m.Name)}, {K: "description", V: short(m.Description)}, {K: "unit", V: short(m.Unit)},
		{K: "type", V: typ}, {K: "temporality", V: temp}, {K: "monotonic", V: mono},
	}
	return item{Res: xResource(res), Scope: xScope(sc), F: append(f, p.fields(n)...)}
}

func decodeMetrics(d *mpb.MetricsData) []item {
	var out []item
	for _, rm := range d.GetResourceMetrics() {
		res := pResource(rm.GetResource(), rm.GetSchemaUrl())
		for _, sm := range rm.GetScopeMetrics() {
			sc := pScope(sm.GetScope(), sm.GetSchemaUrl())
			for _, m := range sm.GetMetrics() {
				p := newPointRec()
				typ, temp, mono, n := "none", "n/a", "n/a", 0
				number := func(dps []*mpb.NumberDataPoint) {
					n = len(dps)
					for _, dp := range dps {
						pk := pAttrs(dp.GetAttributes())
						v := "none"
						switch x := dp.GetValue().(type) {
						case *mpb.NumberDataPoint_AsInt:
							v = fmt.Sprintf("int:%d", x.AsInt)
						case *mpb.NumberDataPoint_AsDouble:
							v = "dbl:" + fb(x.AsDouble)
						}
						p.add(pk, "point.attributes", pk)
						p.add(pk, "point.start", pTime(dp.GetStartTimeUnixNano()))
						p.add(pk, "point.time", pTime(dp.GetTimeUnixNano()))
						p.add(pk, "point.value", v)
						p.add(pk, "point.exemplars", pExemplars(dp.GetExemplars()))
					}
				}
				switch x := m.GetData().(type) {
				case *mpb.Metric_Gauge:
					typ = "gauge"
					number(x.Gauge.GetDataPoints())
				case *mpb.Metric_Sum:
					typ, temp, mono = "sum", pTemporality(x.Sum.GetAggregationTemporality()), strconv.FormatBool(x.Sum.GetIsMonotonic())
					number(x.Sum.GetDataPoints())
				case *mpb.Metric_Histogram:
					typ, temp, n = "histogram", pTemporality(x.Histogram.GetAggregationTemporality()), len(x.Histogram.GetDataPoints())
					for _, dp := range x.Histogram.GetDataPoints() {
						pk := pAttrs(dp.GetAttributes())
						p.add(pk, "point.attributes", pk)
						p.add(pk, "point.start", pTime(dp.GetStartTimeUnixNano()))
						p.add(pk, "point.time", pTime(dp.GetTimeUnixNano()))
						p.add(pk, "point.exemplars", pExemplars(dp.GetExemplars()))
						p.add(pk, "hist.count", strconv.FormatUint(dp.GetCount(), 10))
						p.add(pk, "hist.sum", pOptF(dp.Sum))
						p.add(pk, "hist.min", pOptF(dp.Min))
						p.add(pk, "hist.max", pOptF(dp.Max))
						p.add(pk, "hist.bounds", f64s(dp.GetExplicitBounds()))
						p.add(pk, "hist.bucket_counts", u64s(dp.GetBucketCounts()))
					}
				case *mpb.Metric_ExponentialHistogram:
					typ, temp, n = "exponential_histogram", pTemporality(x.ExponentialHistogram.GetAggregationTemporality()), len(x.ExponentialHistogram.GetDataPoints())
					for _, dp := range x.ExponentialHistogram.GetDataPoints() {
						pk := pAttrs(dp.GetAttributes())
						p.add(pk, "point.attributes", pk)
						p.add(pk, "point.start", pTime(dp.GetStartTimeUnixNano()))
						p.add(pk, "point.time", pTime(dp.GetTimeUnixNano()))
						p.add(pk, "point.exemplars", pExemplars(dp.GetExemplars()))
						p.add(pk, "hist.count", strconv.FormatUint(dp.GetCount(), 10))
						p.add(pk, "hist.sum", pOptF(dp.Sum))
						p.add(pk, "hist.min", pOptF(dp.Min))
						p.add(pk, "hist.max", pOptF(dp.Max))
						p.add(pk, "exphist.scale", strconv.Itoa(int(dp.GetScale())))
						p.add(pk, "exphist.zero_count", strconv.FormatUint(dp.GetZeroCount(), 10))
						p.add(pk, "exphist.zero_threshold", fb(dp.GetZeroThreshold()))
						p.add(pk, "exphist.positive", fmt.Sprintf("%d:%s", dp.GetPositive().GetOffset(), u64s(dp.GetPositive().GetBucketCounts())))
						p.add(pk, "exphist.negative", fmt.Sprintf("%d:%s", dp.GetNegative().GetOffset(), u64s(dp.GetNegative().GetBucketCounts())))
					}
				case *mpb.Metric_Summary:
					typ, n = "summary", len(x.Summary.GetDataPoints())
					for _, dp := range x.Summary.GetDataPoints() {
						pk := pAttrs(dp.GetAttributes())
						p.add(pk, "point.attributes", pk)
						p.add(pk, "point.start", pTime(dp.GetStartTimeUnixNano()))
						p.add(pk, "point.time", pTime(dp.GetTimeUnixNano()))
						p.add(pk, "hist.count", strconv.FormatUint(dp.GetCount(), 10))
						p.add(pk, "hist.sum", fb(dp.GetSum()))
						var qs []string
						for _, q := range dp.GetQuantileValues() {
							qs = append(qs, fb(q.GetQuantile())+"="+fb(q.GetValue()))
						}
						p.add(pk, "summary.quantiles", "["+joinSorted(qs)+"]")
					}
				}
				f := []kv{
					{K: "name", V: short(m.GetName())}, {K: "description", V: short(m.GetDescription())}, {K: "unit", V: short(m.GetUnit())},
					{K: "type", V: typ}, {K: "temporality", V: temp}, {K: "monotonic", V: mono},
				}
				out = append(out, item{Res: res, Scope: sc, F: append(f, p.fields(n)...)})
			}
		}
	}
	return out
}

// ---------------------------------------------------------------------------- the check

type metricCase struct {
	M     metricdata.Metrics
	Field string
	Class string
}

type c13metric struct {
	r  *enum.R
	pc *peerCmp
}

// check runs one ResourceMetrics; cases lists its metrics in order (scope by scope) so that a
// failing item can be related to the variant that produced it.
func (c *c13metric) check(desc string, rm *metricdata.ResourceMetrics, cases []metricCase) {
	r := c.r
	r.Eval()
	var exp []item
	for _, sm := range rm.ScopeMetrics {
		for _, m := range sm.Metrics {
			exp = append(exp, expectMetric(rm.Resource, sm.Scope, m))
		}
	}
	cas := func() any {
		var xs []string
		for i := range exp {
			xs = append(xs, exp[i].String())
		}
		return map[string]any{"input": desc, "scope_metrics": len(rm.ScopeMetrics), "metrics": xs}
	}
	var out *mpb.ResourceMetrics
	var terr error
	if p := func() (p any) {
		defer func() { p = recover() }()
		out, terr = ResourceMetrics(rm)
		return nil
	}(); p != nil {
		r.FailHere("panic|metric transform", cas(), "ResourceMetrics panicked: %v", p)
		return
	}
	if terr != nil {
		r.FailHere("metric|transform-error on valid data", cas(), "ResourceMetrics returned %v", terr)
	}
	wire, err := proto.Marshal(&mpb.MetricsData{ResourceMetrics: []*mpb.ResourceMetrics{out}})
	if err != nil {
		r.FailHere("wire|metric payload does not marshal", cas(), "proto.Marshal: %v", err)
		return
	}
	var back mpb.MetricsData
	if err := proto.Unmarshal(wire, &back); err != nil {
		r.FailHere("wire|metric payload does not unmarshal", cas(), "proto.Unmarshal: %v", err)
		return
	}
	got := decodeMetrics(&back)
	r.Outcome(itemsOutcome(got))
	r.Sample(cas)
	if key, msg, idx := diffItemsIdx(exp, got); key != "" {
		if cases != nil {
			key = classKey(key, idx, func(i int) string { return cases[i].Field }, func(i int) string { return cases[i].Class })
		}
		r.FailHere("metric|"+key, cas(), "%s", msg)
	}
	if len(back.GetResourceMetrics()) == 1 {
		// the one resource of the batch, also when no metric hangs below it
		if g, e := pResource(back.ResourceMetrics[0].GetResource(), back.ResourceMetrics[0].GetSchemaUrl()), xResource(rm.Resource); g != e {
			r.FailHere("metric|grouping|wrong-resource", cas(), "resource: expected %s, decoded %s", e, g)
		}
	}
	b, err := proto.MarshalOptions{Deterministic: true}.Marshal(out)
	if err != nil {
		b = []byte("marshal error: " + err.Error())
	}
	c.pc.add(digest([][]byte{b, []byte(fmt.Sprint(terr))}), desc)
}

// ---------------------------------------------------------------------------- enumeration

var mBase = time.Date(2024, 5, 6, 7, 8, 9, 123456789, time.UTC)

func metricTimes() []time.Time {
	return []time.Time{
		{},
		time.Unix(0, 0),
		time.Unix(0, 1),
		time.Date(2000, 1, 1, 0, 0, 0, 0, time.FixedZone("east", 5*3600)),
		time.Unix(0, math.MaxInt64),
	}
}

func pointAttrs(j int) attribute.Set {
	if j == 0 {
		return attribute.NewSet(attribute.String("user", "alice"))
	}
	return attribute.NewSet(attribute.String("user", "bob"), attribute.Int("n", j))
}

func exemplars[N int64 | float64](n, j int) []metricdata.Exemplar[N] {
	var es []metricdata.Exemplar[N]
	for k := 0; k < n; k++ {
		es = append(es, metricdata.Exemplar[N]{
			FilteredAttributes: []attribute.KeyValue{attribute.Int("filtered", 10*j+k)},
			Time:               mBase.Add(time.Duration(10*j+k) * time.Microsecond),
			Value:              N(7 + 10*j + k),
			SpanID:             []byte{0, 0, 0, 0, 0, 0, byte(j + 1), byte(k + 1)},
			TraceID:            []byte{0, 0, 0, 0, 0, 0, 0, 0, 0, 0, 0, 0, 0, 0, byte(j + 1), byte(k + 1)},
		})
	}
	return es
}

func numPoints[N int64 | float64](n, nex int) []metricdata.DataPoint[N] {
	dps := []metricdata.DataPoint[N]{} // never nil: zero points is a valid aggregation
	for j := 0; j < n; j++ {
		dps = append(dps, metricdata.DataPoint[N]{Attributes: pointAttrs(j), StartTime: mBase, Time: mBase.Add(time.Duration(j+1) * time.Second), Value: N(3 + 2*j), Exemplars: exemplars[N](nex, j)})
	}
	return dps
}

func extrema[N int64 | float64](present bool, v N) metricdata.Extrema[N] {
	if present {
		return metricdata.NewExtrema(v)
	}
	return metricdata.Extrema[N]{}
}

func histPoints[N int64 | float64](n, nex int, hasMin, hasMax bool) []metricdata.HistogramDataPoint[N] {
	dps := []metricdata.HistogramDataPoint[N]{}
	for j := 0; j < n; j++ {
		dps = append(dps, metricdata.HistogramDataPoint[N]{
			Attributes: pointAttrs(j), StartTime: mBase, Time: mBase.Add(time.Duration(j+1) * time.Second),
			Count: uint64(6 + j), Bounds: []float64{0, 5 + float64(j), 10}, BucketCounts: []uint64{1, uint64(2 + j), 3, 0},
			Min: extrema(hasMin, N(-1-j)), Max: extrema(hasMax, N(9+j)), Sum: N(21 + j), Exemplars: exemplars[N](nex, j),
		})
	}
	return dps
}

func expPoints[N int64 | float64](n, nex int, hasMin, hasMax bool) []metricdata.ExponentialHistogramDataPoint[N] {
	dps := []metricdata.ExponentialHistogramDataPoint[N]{}
	for j := 0; j < n; j++ {
		dps = append(dps, metricdata.ExponentialHistogramDataPoint[N]{
			Attributes: pointAttrs(j), StartTime: mBase, Time: mBase.Add(time.Duration(j+1) * time.Second),
			Count: uint64(9 + j), Min: extrema(hasMin, N(-4-j)), Max: extrema(hasMax, N(8+j)), Sum: N(17 + j),
			Scale: int32(3 - j), ZeroCount: uint64(2 + j),
			PositiveBucket: metricdata.ExponentialBucket{Offset: int32(-2 + j), Counts: []uint64{1, 0, uint64(2 + j)}},
			NegativeBucket: metricdata.ExponentialBucket{Offset: int32(4 + j), Counts: []uint64{uint64(3 + j)}},
			Exemplars:      exemplars[N](nex, j),
		})
	}
	return dps
}

var temporalities = []metricdata.Temporality{metricdata.CumulativeTemporality, metricdata.DeltaTemporality}

// groupMetric: metric number i of a grouping batch; the aggregation kind rotates with i.
func groupMetric(i int) metricdata.Metrics {
	m := metricdata.Metrics{Name: fmt.Sprintf("m%d", i), Description: "d", Unit: "1"}
	switch i % 5 {
	case 0:
		m.Data = metricdata.Gauge[int64]{DataPoints: numPoints[int64](1, 0)}
	case 1:
		m.Data = metricdata.Sum[float64]{Temporality: metricdata.DeltaTemporality, IsMonotonic: true, DataPoints: numPoints[float64](2, 0)}
	case 2:
		m.Data = metricdata.Histogram[int64]{Temporality: metricdata.CumulativeTemporality, DataPoints: histPoints[int64](1, 0, true, true)}
	case 3:
		m.Data = metricdata.ExponentialHistogram[float64]{Temporality: metricdata.DeltaTemporality, DataPoints: expPoints[float64](1, 0, true, false)}
	case 4:
		m.Data = metricdata.Summary{DataPoints: []metricdata.SummaryDataPoint{{Attributes: pointAttrs(0), StartTime: mBase, Time: mBase.Add(time.Second), Count: 3, Sum: 4.5, QuantileValues: []metricdata.QuantileValue{{Quantile: 0.5, Value: 1.5}}}}}
	}
	return m
}

func aggFamilyN[N int64 | float64](tag string) []metricCase {
	var fam []metricCase
	mk := func(field string, d metricdata.Aggregation) {
		fam = append(fam, metricCase{M: metricdata.Metrics{Name: fmt.Sprintf("%s-%d", tag, len(fam)), Description: "desc", Unit: "By", Data: d}, Field: field})
	}
	for n := 0; n <= 2; n++ {
		for nex := 0; nex <= 1; nex++ {
			mk("aggregation", metricdata.Gauge[N]{DataPoints: numPoints[N](n, nex)})
			for _, t := range temporalities {
				for _, mono := range []bool{false, true} {
					mk("aggregation", metricdata.Sum[N]{Temporality: t, IsMonotonic: mono, DataPoints: numPoints[N](n, nex)})
				}
				for mm := 0; mm < 4; mm++ {
					mk("aggregation", metricdata.Histogram[N]{Temporality: t, DataPoints: histPoints[N](n, nex, mm&1 != 0, mm&2 != 0)})
					mk("aggregation", metricdata.ExponentialHistogram[N]{Temporality: t, DataPoints: expPoints[N](n, nex, mm&1 != 0, mm&2 != 0)})
				}
			}
		}
	}
	return fam
}

func metricFamilies() [][]metricCase {
	var fams [][]metricCase
	var fam []metricCase
	mk := func(field, class string, d metricdata.Aggregation) {
		fam = append(fam, metricCase{M: metricdata.Metrics{Name: fmt.Sprintf("%s-%d", field, len(fam)), Description: "desc", Unit: "By", Data: d}, Field: field, Class: class})
	}
	flush := func() { fams, fam = append(fams, fam), nil }

	// aggregation kind x number type x temporality x monotonic x {0,1,2} points x min/max x exemplars
	fams = append(fams, aggFamilyN[int64]("i64"), aggFamilyN[float64]("f64"))

	// many data points / exemplars per metric
	for _, n := range []int{127, 128, 129, 300, 1000} {
		mk("point.count", fmt.Sprintf("%d data points", n), metricdata.Sum[int64]{Temporality: metricdata.CumulativeTemporality, IsMonotonic: true, DataPoints: numPoints[int64](n, 0)})
		mk("point.count", fmt.Sprintf("%d data points", n), metricdata.Histogram[float64]{Temporality: metricdata.DeltaTemporality, DataPoints: histPoints[float64](n, 0, true, true)})
		ex := make([]metricdata.Exemplar[int64], n)
		for i := range ex {
			ex[i] = metricdata.Exemplar[int64]{Value: int64(i), Time: mBase.Add(time.Duration(i))}
		}
		mk("point.exemplars.count", fmt.Sprintf("%d exemplars", n), metricdata.Gauge[int64]{DataPoints: []metricdata.DataPoint[int64]{{Value: 1, Time: mBase, Exemplars: ex}}})
	}
	flush()

	// summary: points x quantiles
	for n := 0; n <= 2; n++ {
		for q := 0; q <= 2; q++ {
			dps := []metricdata.SummaryDataPoint{}
			for j := 0; j < n; j++ {
				qs := []metricdata.QuantileValue{}
				for k := 0; k < q; k++ {
					qs = append(qs, metricdata.QuantileValue{Quantile: float64(k) / 2, Value: float64(10*j + k)})
				}
				dps = append(dps, metricdata.SummaryDataPoint{Attributes: pointAttrs(j), StartTime: mBase, Time: mBase.Add(time.Second), Count: uint64(j + 1), Sum: 1.5 * float64(j+1), QuantileValues: qs})
			}
			mk("summary", "", metricdata.Summary{DataPoints: dps})
		}
	}
	for _, v := range []float64{0, math.Copysign(0, -1), math.NaN(), math.Inf(1), math.MaxFloat64, math.SmallestNonzeroFloat64} {
		mk("summary", "", metricdata.Summary{DataPoints: []metricdata.SummaryDataPoint{{Count: math.MaxUint64, Sum: v, QuantileValues: []metricdata.QuantileValue{{Quantile: 0, Value: v}, {Quantile: 1, Value: -v}}}}})
	}
	flush()

	// number values, also in exemplars
	for _, v := range []int64{0, 1, -1, math.MaxInt64, math.MinInt64} {
		ex := []metricdata.Exemplar[int64]{{Value: v, Time: mBase}}
		mk("point.value", "", metricdata.Gauge[int64]{DataPoints: []metricdata.DataPoint[int64]{{Value: v, Time: mBase, Exemplars: ex}}})
		mk("point.value", "", metricdata.Sum[int64]{Temporality: metricdata.DeltaTemporality, DataPoints: []metricdata.DataPoint[int64]{{Value: v, Time: mBase, Exemplars: ex}}})
	}
	for _, v := range []float64{0, math.Copysign(0, -1), 1.5, math.NaN(), math.Inf(1), math.Inf(-1), math.MaxFloat64, math.SmallestNonzeroFloat64} {
		ex := []metricdata.Exemplar[float64]{{Value: v, Time: mBase}}
		mk("point.value", "", metricdata.Gauge[float64]{DataPoints: []metricdata.DataPoint[float64]{{Value: v, Time: mBase, Exemplars: ex}}})
		mk("point.value", "", metricdata.Sum[float64]{Temporality: metricdata.CumulativeTemporality, IsMonotonic: true, DataPoints: []metricdata.DataPoint[float64]{{Value: v, Time: mBase, Exemplars: ex}}})
	}
	flush()

	// timestamps: start x time x exemplar time, on every point type
	for _, a := range metricTimes() {
		for _, b := range metricTimes() {
			ex := []metricdata.Exemplar[int64]{{Value: 1, Time: a}}
			mk("point.time", "", metricdata.Gauge[int64]{DataPoints: []metricdata.DataPoint[int64]{{StartTime: a, Time: b, Value: 1, Exemplars: ex}}})
			mk("point.time", "", metricdata.Histogram[float64]{Temporality: metricdata.DeltaTemporality, DataPoints: []metricdata.HistogramDataPoint[float64]{{StartTime: a, Time: b, Count: 1}}})
			mk("point.time", "", metricdata.ExponentialHistogram[int64]{Temporality: metricdata.DeltaTemporality, DataPoints: []metricdata.ExponentialHistogramDataPoint[int64]{{StartTime: a, Time: b, Count: 1}}})
			mk("point.time", "", metricdata.Summary{DataPoints: []metricdata.SummaryDataPoint{{StartTime: a, Time: b, Count: 1}}})
		}
	}
	flush()

	// point attributes and exemplar filtered attributes: every attribute value type
	af := attrFamily()
	for i := -2; i < len(af); i++ {
		var as []attribute.KeyValue
		switch {
		case i == -1:
			as = af // all together (the set keeps the last value per key)
		case i >= 0:
			as = af[i : i+1]
		}
		ex := []metricdata.Exemplar[float64]{{Value: 1, Time: mBase, FilteredAttributes: as}}
		mk("point.attributes", "", metricdata.Gauge[float64]{DataPoints: []metricdata.DataPoint[float64]{{Attributes: attribute.NewSet(as...), Time: mBase, Value: 1, Exemplars: ex}}})
		if i < 2 {
			mk("point.attributes", "", metricdata.Histogram[int64]{Temporality: metricdata.DeltaTemporality, DataPoints: []metricdata.HistogramDataPoint[int64]{{Attributes: attribute.NewSet(as...), Time: mBase}}})
			mk("point.attributes", "", metricdata.ExponentialHistogram[float64]{Temporality: metricdata.DeltaTemporality, DataPoints: []metricdata.ExponentialHistogramDataPoint[float64]{{Attributes: attribute.NewSet(as...), Time: mBase}}})
			mk("point.attributes", "", metricdata.Summary{DataPoints: []metricdata.SummaryDataPoint{{Attributes: attribute.NewSet(as...), Time: mBase}}})
		}
	}
	flush()

	// exemplar ids
	for _, sid := range [][]byte{nil, {}, {0, 0, 0, 0, 0, 0, 0, 1}, {255, 255, 255, 255, 255, 255, 255, 255}} {
		for _, tid := range [][]byte{nil, {0, 0, 0, 0, 0, 0, 0, 0, 0, 0, 0, 0, 0, 0, 0, 1}, {128, 0, 0, 0, 0, 0, 0, 0, 0, 0, 0, 0, 0, 0, 0, 0}} {
			mk("point.exemplars", "", metricdata.Sum[int64]{Temporality: metricdata.DeltaTemporality, DataPoints: []metricdata.DataPoint[int64]{{Value: 1, Time: mBase, Exemplars: []metricdata.Exemplar[int64]{{Value: 2, Time: mBase, SpanID: sid, TraceID: tid}, {Value: 3, Time: mBase}}}}})
		}
	}
	flush()

	// explicit-bucket layouts, counts, sums, extrema
	type layout struct {
		b []float64
		c []uint64
	}
	for _, l := range []layout{{nil, nil}, {[]float64{}, []uint64{0}}, {[]float64{0}, []uint64{1, 2}}, {[]float64{-1, 0, 1.5}, []uint64{0, math.MaxUint64, 1, 2}},
		{[]float64{math.Inf(-1), math.Copysign(0, -1), math.MaxFloat64, math.Inf(1)}, []uint64{5, 4, 3, 2, 1}}, {[]float64{1, 2}, []uint64{7}}} {
		for _, cnt := range []uint64{0, 1, math.MaxUint64} {
			mk("hist", "", metricdata.Histogram[float64]{Temporality: metricdata.CumulativeTemporality, DataPoints: []metricdata.HistogramDataPoint[float64]{{Time: mBase, Count: cnt, Bounds: l.b, BucketCounts: l.c, Sum: 1}}})
			mk("hist", "", metricdata.Histogram[int64]{Temporality: metricdata.DeltaTemporality, DataPoints: []metricdata.HistogramDataPoint[int64]{{Time: mBase, Count: cnt, Bounds: l.b, BucketCounts: l.c, Sum: 1}}})
		}
	}
	for _, v := range []float64{0, math.Copysign(0, -1), -2.5, math.NaN(), math.Inf(1), math.Inf(-1), math.MaxFloat64, math.SmallestNonzeroFloat64} {
		mk("hist", "", metricdata.Histogram[float64]{Temporality: metricdata.DeltaTemporality, DataPoints: []metricdata.HistogramDataPoint[float64]{{Time: mBase, Count: 1, Sum: v, Min: metricdata.NewExtrema(v), Max: metricdata.NewExtrema(-v)}}})
		mk("hist", "", metricdata.ExponentialHistogram[float64]{Temporality: metricdata.DeltaTemporality, DataPoints: []metricdata.ExponentialHistogramDataPoint[float64]{{Time: mBase, Count: 1, Sum: v, Min: metricdata.NewExtrema(v), Max: metricdata.NewExtrema(-v)}}})
	}
	for _, v := range []int64{0, -1, 1 << 53, 1<<53 + 1, math.MaxInt64, math.MinInt64} {
		mk("hist", "", metricdata.Histogram[int64]{Temporality: metricdata.DeltaTemporality, DataPoints: []metricdata.HistogramDataPoint[int64]{{Time: mBase, Count: 1, Sum: v, Min: metricdata.NewExtrema(v), Max: metricdata.NewExtrema(-v)}}})
		mk("hist", "", metricdata.ExponentialHistogram[int64]{Temporality: metricdata.DeltaTemporality, DataPoints: []metricdata.ExponentialHistogramDataPoint[int64]{{Time: mBase, Count: 1, Sum: v, Min: metricdata.NewExtrema(v), Max: metricdata.NewExtrema(-v)}}})
	}
	flush()

	// exponential layouts: scale x offsets/counts x zero count, then the zero threshold
	buckets := []metricdata.ExponentialBucket{{}, {Offset: 0, Counts: []uint64{1}}, {Offset: -5, Counts: []uint64{0, 2, math.MaxUint64}}, {Offset: math.MaxInt32, Counts: []uint64{}}, {Offset: math.MinInt32, Counts: []uint64{3, 0}}}
	for _, scale := range []int32{0, -10, 20, math.MinInt32, math.MaxInt32} {
		for pi, pos := range buckets {
			neg := buckets[(pi+2)%len(buckets)]
			for _, zc := range []uint64{0, 1, math.MaxUint64} {
				mk("exphist", "", metricdata.ExponentialHistogram[float64]{Temporality: metricdata.CumulativeTemporality, DataPoints: []metricdata.ExponentialHistogramDataPoint[float64]{{Time: mBase, Count: 4, Scale: scale, ZeroCount: zc, PositiveBucket: pos, NegativeBucket: neg}}})
			}
		}
	}
	flush()
	for _, zt := range []float64{0, 0.01, 1, math.SmallestNonzeroFloat64, math.MaxFloat64, math.Inf(1)} {
		cl := "zero threshold != 0"
		if zt == 0 {
			cl = "zero threshold = 0"
		}
		mk("exphist.zero_threshold", cl, metricdata.ExponentialHistogram[float64]{Temporality: metricdata.DeltaTemporality, DataPoints: []metricdata.ExponentialHistogramDataPoint[float64]{{Time: mBase, Count: 2, ZeroCount: 2, ZeroThreshold: zt}}})
		mk("exphist.zero_threshold", cl, metricdata.ExponentialHistogram[int64]{Temporality: metricdata.DeltaTemporality, DataPoints: []metricdata.ExponentialHistogramDataPoint[int64]{{Time: mBase, Count: 2, ZeroCount: 2, ZeroThreshold: zt}}})
	}
	flush()

	// name, description, unit
	for _, s := range []string{"", "x", "Ünï ✓ \x00\n\"", strings.Repeat("0123456789abcdef", 4096)} {
		fam = append(fam, metricCase{M: metricdata.Metrics{Name: s, Description: "d", Unit: "u", Data: metricdata.Gauge[int64]{DataPoints: numPoints[int64](1, 0)}}, Field: "name"})
		fam = append(fam, metricCase{M: metricdata.Metrics{Name: "n", Description: s, Unit: "u", Data: metricdata.Gauge[int64]{DataPoints: numPoints[int64](1, 0)}}, Field: "description"})
		fam = append(fam, metricCase{M: metricdata.Metrics{Name: "n", Description: "d", Unit: s, Data: metricdata.Gauge[int64]{DataPoints: numPoints[int64](1, 0)}}, Field: "unit"})
	}
	flush()
	return fams
}

func metricJobs(thorough bool) []string {
	jobs := []string{"fields", "content"}
	n := 5
	for i := 0; i < n; i++ {
		jobs = append(jobs, fmt.Sprintf("group/resource=%d", i))
	}
	return jobs
}

func TestVerifC13Metric(t *testing.T) {
	enum.Jobs(metricJobs(enumTierThorough()), func(job string) {
		r := enum.Start("C13", "metric-"+sideName())
		defer r.Finish()
		c := &c13metric{r: r, pc: newPeerCmp(r, "metric")}
		defer c.pc.finish()
		rs, ss := resAlphabet(true), scopeAlphabet()
		maxLen := enum.Pick(r, 3, 4)
		r.Bound("metric_resources", len(rs))
		r.Bound("metric_scope_entries", len(ss)*3)
		r.Bound("metric_max_scope_list_len", maxLen)
		r.Section(job)
		one := func(desc string, res *resource.Resource, sc instrumentation.Scope, cases ...metricCase) {
			ms := make([]metricdata.Metrics, len(cases))
			for i := range cases {
				ms[i] = cases[i].M
			}
			c.check(desc, &metricdata.ResourceMetrics{Resource: res, ScopeMetrics: []metricdata.ScopeMetrics{{Scope: sc, Metrics: ms}}}, cases)
		}
		switch {
		case job == "fields":
			fams := metricFamilies()
			n := 0
			for _, f := range fams {
				n += len(f)
			}
			r.Bound("metric_field_variants", n)
			for fi, fam := range fams {
				for i := range fam {
					if r.Want() {
						one(fmt.Sprintf("family %d (%s) variant %d", fi, fam[i].Field, i), rs[0].R, ss[0].S, fam[i])
					}
				}
				for i := range fam {
					j := (i + 1) % len(fam)
					if r.Want() {
						a, b := fam[i], fam[j]
						if a.M.Name == b.M.Name { // two metrics of one scope are told apart by name
							b.M.Name += "'"
						}
						one(fmt.Sprintf("family %d (%s) variants %d+%d", fi, fam[i].Field, i, j), rs[0].R, ss[0].S, a, b)
					}
				}
			}
		case job == "content":
			// resource and scope content: every attribute value type, URL-only, empty
			af := attrFamily()
			m := metricCase{M: groupMetric(0)}
			for i := -1; i < len(af); i++ {
				as := af
				if i >= 0 {
					as = af[i : i+1]
				}
				if r.Want() {
					one(fmt.Sprintf("resource attribute %d", i), resource.NewSchemaless(as...), ss[0].S, m)
				}
				if r.Want() {
					one(fmt.Sprintf("scope attribute %d", i), rs[0].R, instrumentation.Scope{Name: "n", Attributes: attribute.NewSet(as...)}, m)
				}
			}
			for i, sc := range []instrumentation.Scope{{SchemaURL: "https://example.test/only-url"}, {Version: "only-version"}, {Attributes: attribute.NewSet(attribute.Int("only", 1))}} {
				if r.Want() {
					one(fmt.Sprintf("partial scope %d", i), rs[0].R, sc, m)
				}
			}
			if r.Want() {
				one("resource with only a schema URL", resource.NewWithAttributes("https://example.test/only-url"), ss[0].S, m)
			}
			if r.Want() { // no scope list at all
				c.check("no ScopeMetrics", &metricdata.ResourceMetrics{Resource: rs[0].R}, nil)
			}
		default:
			var ri int
			fmt.Sscanf(job, "group/resource=%d", &ri)
			nsym := len(ss) * 3 // scope x {0,1,2} metrics
			for L := 0; L <= maxLen && !r.Expired(); L++ {
				eachSeq(nsym, L, -1, func(seq []int) bool {
					if !r.Want() {
						return true
					}
					rm := &metricdata.ResourceMetrics{Resource: rs[ri].R, ScopeMetrics: []metricdata.ScopeMetrics{}}
					var names []string
					k := 0
					for _, s := range seq {
						sm := metricdata.ScopeMetrics{Scope: ss[s/3].S}
						for j := 0; j < s%3; j++ {
							sm.Metrics = append(sm.Metrics, groupMetric(k))
							k++
						}
						rm.ScopeMetrics = append(rm.ScopeMetrics, sm)
						names = append(names, fmt.Sprintf("%s×%d", ss[s/3].Name, s%3))
					}
					c.check("group "+rs[ri].Name+": "+strings.Join(names, " "), rm, nil)
					return !r.Expired()
				})
			}
		}
	})
}
