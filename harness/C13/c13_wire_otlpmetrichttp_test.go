package otlpmetrichttp

// C13 (unit wire-otlpmetrichttp) — what the exporter puts on the wire; see internal/verifc13w.

import (
	"context"
	"fmt"
	"testing"
	"time"

	"google.golang.org/protobuf/proto"

	"go.opentelemetry.io/otel/attribute"
	"go.opentelemetry.io/otel/exporters/otlp/otlpmetric/otlpmetrichttp/internal/transform"
	"go.opentelemetry.io/otel/internal/verifc13w"
	"go.opentelemetry.io/otel/sdk/instrumentation"
	"go.opentelemetry.io/otel/sdk/metric/metricdata"
	"go.opentelemetry.io/otel/sdk/resource"
	colmetricpb "go.opentelemetry.io/proto/otlp/collector/metrics/v1"
	mpb "go.opentelemetry.io/proto/otlp/metrics/v1"
)

type c13wExporter struct {
	e   *Exporter
	rms []*metricdata.ResourceMetrics
}

func (x c13wExporter) Export(ctx context.Context, b int) error { return x.e.Export(ctx, x.rms[b]) }
func (x c13wExporter) Shutdown(ctx context.Context) error      { return x.e.Shutdown(ctx) }

func c13wBatch(svc string, metrics, points int) *metricdata.ResourceMetrics {
	t0 := time.Unix(1700000000, 0)
	rm := &metricdata.ResourceMetrics{Resource: resource.NewSchemaless(attribute.String("service.name", svc))}
	sm := metricdata.ScopeMetrics{Scope: instrumentation.Scope{Name: "scope-of-" + svc, Version: "v1"}}
	for m := 0; m < metrics; m++ {
		var dps []metricdata.DataPoint[int64]
		for p := 0; p < points; p++ {
			dps = append(dps, metricdata.DataPoint[int64]{Attributes: attribute.NewSet(attribute.String("point", fmt.Sprintf("%s-%d-%d", svc, m, p)), attribute.Int("n", p)),
				StartTime: t0, Time: t0.Add(time.Duration(p+1) * time.Second), Value: int64(1000*m + p)})
		}
		sm.Metrics = append(sm.Metrics, metricdata.Metrics{Name: fmt.Sprintf("%s.metric.%d", svc, m), Description: "d", Unit: "1",
			Data: metricdata.Sum[int64]{Temporality: metricdata.CumulativeTemporality, IsMonotonic: true, DataPoints: dps}})
	}
	rm.ScopeMetrics = []metricdata.ScopeMetrics{sm}
	return rm
}

func TestVerifC13Wire(t *testing.T) {
	rms := []*metricdata.ResourceMetrics{c13wBatch("small", 1, 1), c13wBatch("medium", 3, 4), c13wBatch("large", 4, 300), c13wBatch("other-exporter", 2, 40)}
	want := make([]*colmetricpb.ExportMetricsServiceRequest, len(rms))
	for i, rm := range rms {
		pb, err := transform.ResourceMetrics(rm)
		if err != nil {
			t.Fatal(err)
		}
		want[i] = &colmetricpb.ExportMetricsServiceRequest{ResourceMetrics: []*mpb.ResourceMetrics{pb}}
	}
	verifc13w.Run(t, verifc13w.Target{
		Name:    "otlpmetrichttp",
		Batches: []string{"small (1 point)", "medium (12 points)", "large (1200 points)", "the second exporter's batch (80 points)"},
		Check: func(b int, body []byte) string {
			var got colmetricpb.ExportMetricsServiceRequest
			if err := proto.Unmarshal(body, &got); err != nil {
				return "not an ExportMetricsServiceRequest: " + err.Error()
			}
			if !proto.Equal(&got, want[b]) {
				n := 0
				for _, rm := range got.ResourceMetrics {
					for _, sm := range rm.ScopeMetrics {
						n += len(sm.Metrics)
					}
				}
				return fmt.Sprintf("decodes to a different request (%d bytes, %d metrics; the conversion of the batch has %d bytes)", len(body), n, proto.Size(want[b]))
			}
			return ""
		},
		New: func(gz bool, host string) verifc13w.Exporter {
			comp := NoCompression
			if gz {
				comp = GzipCompression
			}
			e, err := New(context.Background(), WithInsecure(), WithEndpoint(host), WithCompression(comp),
				WithRetry(RetryConfig{Enabled: true, InitialInterval: time.Nanosecond, MaxInterval: time.Nanosecond, MaxElapsedTime: time.Minute}))
			if err != nil {
				panic(err)
			}
			e.client.(*client).httpClient.Transport = verifc13w.RoundTripper()
			return c13wExporter{e: e, rms: rms}
		},
	})
}
