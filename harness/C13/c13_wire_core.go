// Package verifc13w is harness code of the C13 check (present in the scratch copy only): what
// the OTLP/HTTP exporters actually put on the wire. The transform units decide that a batch is
// converted faithfully; this core decides that every request an exporter sends -- first attempt,
// retries, a second export on the same exporter, requests sent while another exporter of the
// same package is exporting -- carries exactly that conversion, with or without gzip.
//
// Bounded-exhaustive: compression x collector answers before the final 200 (all words up to a
// length over {503, 429, temporary network error}) x plans of one or two exports over the batch
// alphabet x the point at which a second exporter (other endpoint, other batch) completes an
// export of its own (never / while attempt k of the scripted export is in flight). The
// exporter's Transport is a scripted RoundTripper (no sockets); retry waits are the package's own
// with a 1 ns back-off.
package verifc13w

import (
	"bytes"
	"compress/gzip"
	"context"
	"fmt"
	"io"
	"net/http"
	"strconv"
	"strings"
	"testing"

	"verif/mc/enum"
)

type Exporter interface {
	Export(ctx context.Context, batch int) error
	Shutdown(ctx context.Context) error
}

// Target describes one exporter package. Batches 0..Batches-2 are exported by the exporter
// under test, the last batch by the second exporter.
type Target struct {
	Name    string
	Batches []string                              // descriptions
	New     func(gzip bool, host string) Exporter // retry enabled, 1 ns intervals, Transport = RoundTripper()
	Check   func(batch int, body []byte) string   // "" when body (uncompressed) is exactly the export request of the batch
}

const (
	Host        = "c13w.invalid:4318"
	ForeignHost = "c13w-foreign.invalid:4318"
)

type answer int

const (
	ok200 answer = iota
	http503
	http429
	netTemp
)

func (a answer) String() string {
	return [...]string{"200", "503", "429", "temporary network error"}[a]
}

type tempErr struct{}

func (tempErr) Error() string   { return "c13w: connection reset (temporary)" }
func (tempErr) Temporary() bool { return true }
func (tempErr) Timeout() bool   { return false }

type run struct {
	tg       *Target
	gz       bool
	word     []answer
	batch    int // the batch the exporter under test is exporting now
	exportNo int // 1 or 2
	attempt  int // attempts of the current export
	foreign  Exporter
	fBatch   int
	at       int // interleave while attempt `at` of the first export is in flight (0: never)
	fDone    bool
	fErr     error
	fReqs    int
	problems []problem
}

type problem struct{ class, msg string }

var cur *run

func (r *run) bad(class, format string, a ...any) {
	r.problems = append(r.problems, problem{class, fmt.Sprintf(format, a...)})
}

type roundTripper struct{}

func RoundTripper() http.RoundTripper { return roundTripper{} }

func (roundTripper) RoundTrip(req *http.Request) (*http.Response, error) {
	r := cur
	var body []byte
	if req.Body != nil {
		body, _ = io.ReadAll(req.Body)
		req.Body.Close()
	}
	foreign := req.URL.Host == ForeignHost
	who, batch := "the exporter", r.batch
	if foreign {
		who, batch = "the second exporter", r.fBatch
		r.fReqs++
	} else {
		r.attempt++
	}
	when := "first attempt"
	switch {
	case foreign:
		when = "second exporter's request"
	case r.attempt > 1 && r.fDone:
		when = "retry after another exporter of the package exported"
	case r.attempt > 1:
		when = "retry"
	case r.exportNo > 1:
		when = "first attempt of a later export on the same exporter"
	}
	if req.ContentLength >= 0 && req.ContentLength != int64(len(body)) {
		r.bad("content-length|"+when, "%s: Content-Length %d, %d body bytes", who, req.ContentLength, len(body))
	}
	if ct := req.Header.Get("Content-Type"); ct != "application/x-protobuf" {
		r.bad("content-type|"+when, "%s: Content-Type %q", who, ct)
	}
	raw := body
	enc := req.Header.Get("Content-Encoding")
	switch {
	case r.gz && enc != "gzip":
		r.bad("content-encoding|"+when, "%s: gzip configured, Content-Encoding %q", who, enc)
	case !r.gz && enc != "":
		r.bad("content-encoding|"+when, "%s: no compression configured, Content-Encoding %q", who, enc)
	}
	if enc == "gzip" {
		zr, err := gzip.NewReader(bytes.NewReader(body))
		if err == nil {
			raw, err = io.ReadAll(zr)
		}
		if err != nil {
			r.bad("body is not valid gzip|"+when, "%s: %v", who, err)
			raw = nil
		}
	}
	if raw != nil {
		if msg := r.tg.Check(batch, raw); msg != "" {
			r.bad("request does not carry the exported batch|"+when, "%s, batch %q, attempt %d of export %d: %s", who, r.tg.Batches[batch], r.attempt, r.exportNo, msg)
		}
	}
	resp := func(code int) *http.Response {
		return &http.Response{Status: strconv.Itoa(code) + " " + http.StatusText(code), StatusCode: code, Proto: "HTTP/1.1", ProtoMajor: 1, ProtoMinor: 1,
			Header: http.Header{}, Body: io.NopCloser(bytes.NewReader(nil)), ContentLength: 0, Request: req}
	}
	if foreign {
		return resp(200), nil
	}
	if r.foreign != nil && !r.fDone && r.exportNo == 1 && r.attempt == r.at {
		r.fDone = true
		r.fErr = r.foreign.Export(context.Background(), r.fBatch)
	}
	a := ok200
	if r.exportNo == 1 && r.attempt <= len(r.word) {
		a = r.word[r.attempt-1]
	}
	switch a {
	case http503:
		return resp(503), nil
	case http429:
		return resp(429), nil
	case netTemp:
		return nil, tempErr{}
	}
	return resp(200), nil
}

type wireCase struct {
	Exporter    string   `json:"exporter"`
	Compression string   `json:"compression"`
	Answers     []string `json:"collector_answers_before_the_final_200"`
	Plan        []string `json:"exports_on_the_exporter"`
	Interleave  string   `json:"second_exporter"`
}

func Run(t *testing.T, tg Target) {
	enum.Jobs([]string{"wire/none", "wire/gzip"}, func(job string) {
		r := enum.Start("C13", "wire-"+tg.Name)
		defer r.Finish()
		gz := job == "wire/gzip"
		maxWord := enum.Pick(r, 2, 3)
		nb := len(tg.Batches) - 1
		r.Bound("wire_answer_alphabet", []string{"503", "429", "temporary network error"})
		r.Bound("wire_max_answers_before_200", maxWord)
		r.Bound("wire_batches", tg.Batches)
		r.Bound("wire_max_exports_per_exporter", 2)
		r.Section(job)
		var words [][]answer
		var gen func(w []answer)
		gen = func(w []answer) {
			words = append(words, append([]answer{}, w...))
			if len(w) == maxWord {
				return
			}
			for _, a := range []answer{http503, http429, netTemp} {
				gen(append(w, a))
			}
		}
		gen(nil)
		var plans [][]int
		for a := 0; a < nb; a++ {
			plans = append(plans, []int{a})
			for b := 0; b < nb; b++ {
				plans = append(plans, []int{a, b})
			}
		}
		for _, word := range words {
			for _, plan := range plans {
				for at := 0; at <= len(word)+1; at++ {
					if r.Expired() {
						return
					}
					if !r.Want() {
						continue
					}
					r.Eval()
					rn := &run{tg: &tg, gz: gz, word: word, fBatch: nb, at: at}
					cur = rn
					exp := tg.New(gz, Host)
					if at > 0 {
						rn.foreign = tg.New(gz, ForeignHost)
					}
					var errs []string
					for i, b := range plan {
						rn.batch, rn.exportNo, rn.attempt = b, i+1, 0
						if err := exp.Export(context.Background(), b); err != nil {
							errs = append(errs, fmt.Sprintf("export %d: %v", i+1, err))
						}
						want := 1
						if i == 0 {
							want = len(word) + 1
						}
						if rn.attempt != want {
							rn.bad("number of requests", "export %d of batch %q: %d requests, scripted answers %v then 200", i+1, tg.Batches[b], rn.attempt, word)
						}
					}
					_ = exp.Shutdown(context.Background())
					if rn.foreign != nil {
						_ = rn.foreign.Shutdown(context.Background())
						if !rn.fDone || rn.fErr != nil || rn.fReqs != 1 {
							rn.bad("second exporter", "done=%v err=%v requests=%d", rn.fDone, rn.fErr, rn.fReqs)
						}
					}
					for _, e := range errs {
						rn.bad("export error", "%s", e)
					}
					cas := wireCase{Exporter: tg.Name, Compression: map[bool]string{false: "none", true: "gzip"}[gz]}
					for _, a := range word {
						cas.Answers = append(cas.Answers, a.String())
					}
					for _, b := range plan {
						cas.Plan = append(cas.Plan, tg.Batches[b])
					}
					cas.Interleave = "none"
					if at > 0 {
						cas.Interleave = fmt.Sprintf("exports %q while attempt %d of the first export is in flight", tg.Batches[nb], at)
					}
					seen := map[string]bool{}
					for _, p := range rn.problems {
						if !seen[p.class] {
							seen[p.class] = true
							r.FailHere("wire|"+tg.Name+"|"+p.class, cas, "%s", p.msg)
						}
					}
					r.Outcome(fmt.Sprint(len(word), len(plan), at > 0, len(rn.problems)))
					r.Sample(func() any { return cas })
				}
			}
		}
		_ = strings.TrimSpace
	})
}
