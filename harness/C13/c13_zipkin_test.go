package zipkin

// C13 — the Zipkin exporter preserves trace, span and parent IDs, name, kind, start time and
// duration. Every enumerated batch of read-only spans goes through the real exporter
// (zipkin.New with an http.Client whose transport is an in-process function: no socket), the
// JSON body of the POST is decoded generically (maps, json.Number) and compared, as a
// multiset, with neutral items derived from the span descriptions by the harness.

import (
	"bytes"
	"context"
	"crypto/sha256"
	"encoding/hex"
	"encoding/json"
	"fmt"
	"io"
	"math"
	"math/big"
	"net/http"
	"sort"
	"strconv"
	"strings"
	"testing"
	"time"

	"go.opentelemetry.io/otel/attribute"
	"go.opentelemetry.io/otel/sdk/instrumentation"
	"go.opentelemetry.io/otel/sdk/resource"
	"go.opentelemetry.io/otel/sdk/trace/tracetest"
	"go.opentelemetry.io/otel/trace"
	"verif/mc/enum"
)

type zkv struct{ K, V, Alt string }
type zitem []zkv

func (it zitem) String() string {
	var xs []string
	for _, f := range it {
		xs = append(xs, f.K+"="+f.V)
	}
	return strings.Join(xs, " ")
}

func zdiff(e, g zitem) []string {
	var d []string
	for i := range e {
		if e[i].V != g[i].V && (e[i].Alt == "" || e[i].Alt != g[i].V) {
			d = append(d, e[i].K)
		}
	}
	return d
}

// zcompare: multiset comparison, as in the OTLP harnesses.
func zcompare(exp, got []zitem) (key, msg string) {
	used := make([]bool, len(got))
	var el, gl []int
	for i := range exp {
		m := -1
		for j := range got {
			if !used[j] && len(zdiff(exp[i], got[j])) == 0 {
				m = j
				break
			}
		}
		if m >= 0 {
			used[m] = true
		} else {
			el = append(el, i)
		}
	}
	for j := range got {
		if !used[j] {
			gl = append(gl, j)
		}
	}
	switch {
	case len(el) == 0 && len(gl) == 0:
		return "", ""
	case len(gl) == 0:
		return "span-lost", fmt.Sprintf("%d of %d spans not in the payload; first: %s", len(el), len(exp), exp[el[0]])
	case len(el) == 0:
		return "span-extra", fmt.Sprintf("payload has %d spans for %d inputs; extra: %s", len(got), len(exp), got[gl[0]])
	}
	be, bg, bd := -1, -1, []string(nil)
	for _, e := range el {
		for _, g := range gl {
			if d := zdiff(exp[e], got[g]); be < 0 || len(d) < len(bd) {
				be, bg, bd = e, g, d
			}
		}
	}
	var ev, gv string
	for i := range exp[be] {
		if exp[be][i].K == bd[0] {
			ev, gv = exp[be][i].V, got[bg][i].V
			if exp[be][i].Alt != "" {
				ev += " (or " + exp[be][i].Alt + ")"
			}
		}
	}
	return "field|" + bd[0], fmt.Sprintf("%s: expected %s, payload has %s (all differing fields %v; span %s)", bd[0], ev, gv, bd, exp[be])
}

func unixNanos(t time.Time) *big.Int {
	n := new(big.Int).Mul(big.NewInt(t.Unix()), big.NewInt(1_000_000_000))
	return n.Add(n, big.NewInt(int64(t.Nanosecond())))
}

func usPair(ns *big.Int) (round, floor string) {
	k := big.NewInt(1000)
	f := new(big.Int).Div(ns, k)
	r := new(big.Int).Div(new(big.Int).Add(ns, big.NewInt(500)), k)
	return r.String(), f.String()
}

func expectZipkin(s *tracetest.SpanStub) zitem {
	tid, sid, psid := s.SpanContext.TraceID(), s.SpanContext.SpanID(), s.Parent.SpanID()
	parent := "none"
	if psid != (trace.SpanID{}) {
		parent = fmt.Sprintf("%016x", new(big.Int).SetBytes(psid[:]))
	}
	// OpenTelemetry -> Zipkin kind mapping of the specification: INTERNAL and unspecified have no Zipkin kind
	kind := map[trace.SpanKind]string{trace.SpanKindServer: "SERVER", trace.SpanKindClient: "CLIENT", trace.SpanKindProducer: "PRODUCER", trace.SpanKindConsumer: "CONSUMER"}[s.SpanKind]
	ts, tsAlt := "0", ""
	if !s.StartTime.IsZero() {
		ts, tsAlt = usPair(unixNanos(s.StartTime))
	}
	var d *big.Int
	if s.StartTime.IsZero() && s.EndTime.IsZero() {
		d = big.NewInt(0)
	} else {
		d = new(big.Int).Sub(unixNanos(s.EndTime), unixNanos(s.StartTime))
	}
	dur, durAlt := usPair(d)
	if d.Sign() > 0 && d.Cmp(big.NewInt(1000)) < 0 {
		dur, durAlt = "1", "0" // below Zipkin's resolution: not judged beyond "0 or 1 microsecond"
	}
	return zitem{
		{K: "trace_id", V: fmt.Sprintf("%032x", new(big.Int).SetBytes(tid[:]))},
		{K: "span_id", V: fmt.Sprintf("%016x", new(big.Int).SetBytes(sid[:]))},
		{K: "parent_id", V: parent},
		{K: "name", V: strconv.Quote(strings.ToLower(s.Name))}, // Zipkin span names are lower case by definition
		{K: "kind", V: kind},
		{K: "start_us", V: ts, Alt: tsAlt},
		{K: "duration_us", V: dur, Alt: durAlt},
	}
}

func hexNum(v any, width int) string {
	s, ok := v.(string)
	if !ok {
		return fmt.Sprintf("not-a-string:%v", v)
	}
	n, ok := new(big.Int).SetString(s, 16)
	if !ok || s == "" {
		return "unparsable:" + strconv.Quote(s)
	}
	return fmt.Sprintf("%0*x", width, n)
}

func num(v any) string {
	if v == nil {
		return "0"
	}
	if n, ok := v.(json.Number); ok {
		return n.String()
	}
	return fmt.Sprintf("not-a-number:%v", v)
}

func decodeZipkin(body []byte) ([]zitem, error) {
	dec := json.NewDecoder(bytes.NewReader(body))
	dec.UseNumber()
	var arr []map[string]any
	if err := dec.Decode(&arr); err != nil {
		return nil, err
	}
	var out []zitem
	for _, m := range arr {
		parent := "none"
		if p, ok := m["parentId"]; ok {
			parent = hexNum(p, 16)
		}
		name, _ := m["name"].(string)
		kind, _ := m["kind"].(string)
		out = append(out, zitem{
			{K: "trace_id", V: hexNum(m["traceId"], 32)},
			{K: "span_id", V: hexNum(m["id"], 16)},
			{K: "parent_id", V: parent},
			{K: "name", V: strconv.Quote(name)},
			{K: "kind", V: kind},
			{K: "start_us", V: num(m["timestamp"])},
			{K: "duration_us", V: num(m["duration"])},
		})
	}
	return out, nil
}

type sink struct{ bodies [][]byte }

func (s *sink) RoundTrip(req *http.Request) (*http.Response, error) {
	b, _ := io.ReadAll(req.Body)
	req.Body.Close()
	s.bodies = append(s.bodies, b)
	return &http.Response{StatusCode: http.StatusAccepted, Status: "202 Accepted", Proto: "HTTP/1.1", ProtoMajor: 1, ProtoMinor: 1,
		Header: http.Header{}, Body: io.NopCloser(strings.NewReader("")), Request: req}, nil
}

type zcase struct {
	S     tracetest.SpanStub
	Field string
}

type c13zipkin struct{ r *enum.R }

func (c *c13zipkin) check(desc string, batch []zcase) {
	r := c.r
	r.Eval()
	exp := make([]zitem, len(batch))
	stubs := make(tracetest.SpanStubs, len(batch))
	for i := range batch {
		exp[i] = expectZipkin(&batch[i].S)
		stubs[i] = batch[i].S
	}
	cas := func() any {
		var xs []string
		for i := range exp {
			xs = append(xs, exp[i].String())
		}
		return map[string]any{"input": desc, "spans": xs}
	}
	sk := &sink{}
	var eerr error
	if p := func() (p any) {
		defer func() { p = recover() }()
		e, err := New("http://zipkin.invalid:9411/api/v2/spans", WithClient(&http.Client{Transport: sk}))
		if err != nil {
			panic("harness: zipkin.New: " + err.Error())
		}
		eerr = e.ExportSpans(context.Background(), stubs.Snapshots())
		return nil
	}(); p != nil {
		r.FailHere("panic|zipkin exporter", cas(), "ExportSpans panicked: %v", p)
		return
	}
	if eerr != nil {
		r.FailHere("zipkin|export-error", cas(), "ExportSpans returned %v with a collector that accepts everything", eerr)
		return
	}
	var got []zitem
	for _, b := range sk.bodies {
		g, err := decodeZipkin(b)
		if err != nil {
			r.FailHere("zipkin|payload is not a JSON list of objects", cas(), "%v: %.300s", err, b)
			return
		}
		got = append(got, g...)
	}
	var xs []string
	for _, g := range got {
		xs = append(xs, g.String())
	}
	sort.Strings(xs)
	h := sha256.Sum256([]byte(strings.Join(xs, "\n")))
	r.Outcome(hex.EncodeToString(h[:8]))
	r.Sample(cas)
	if key, msg := zcompare(exp, got); key != "" {
		r.FailHere("zipkin|"+key, cas(), "%s", msg)
	}
}

var zBase = time.Date(2024, 5, 6, 7, 8, 9, 123456789, time.UTC)

func zspan(i int) tracetest.SpanStub {
	return tracetest.SpanStub{
		Name:        fmt.Sprintf("span-%d", i),
		SpanContext: trace.NewSpanContext(trace.SpanContextConfig{TraceID: trace.TraceID{0: 0xab, 15: 1}, SpanID: trace.SpanID{0: 0xcd, 6: byte((i + 1) >> 8), 7: byte(i + 1)}, TraceFlags: trace.FlagsSampled}),
		SpanKind:    trace.SpanKindInternal,
		StartTime:   zBase.Add(time.Duration(i) * time.Millisecond),
		EndTime:     zBase.Add(time.Duration(i)*time.Millisecond + 250*time.Microsecond),
		Resource:    resource.NewSchemaless(attribute.String("service.name", "svc")),
	}
}

func zipkinFamilies() [][]zcase {
	var fams [][]zcase
	var fam []zcase
	mk := func(field string, mod func(s *tracetest.SpanStub)) {
		s := zspan(len(fam))
		mod(&s)
		fam = append(fam, zcase{S: s, Field: field})
	}
	flush := func() { fams, fam = append(fams, fam), nil }
	ff16 := trace.TraceID{0xff, 0xff, 0xff, 0xff, 0xff, 0xff, 0xff, 0xff, 0xff, 0xff, 0xff, 0xff, 0xff, 0xff, 0xff, 0xff}
	ff8 := trace.SpanID{0xff, 0xff, 0xff, 0xff, 0xff, 0xff, 0xff, 0xff}
	// trace ids: zero, 64-bit (high half zero), high half only, top bit, all ones; span ids; parents
	for _, tid := range []trace.TraceID{{}, {15: 1}, {8: 0x80}, {7: 1}, {0: 0x80}, {0: 1, 15: 1}, ff16} {
		for _, sid := range []trace.SpanID{{}, {7: 1}, {0: 0x80}, {0: 0x0a, 7: 0xb0}, ff8} {
			for _, psid := range []trace.SpanID{{}, {7: 2}, {0: 0x80}, ff8} {
				tid, sid, psid := tid, sid, psid
				mk("ids", func(s *tracetest.SpanStub) {
					s.SpanContext = trace.NewSpanContext(trace.SpanContextConfig{TraceID: tid, SpanID: sid})
					s.Parent = trace.NewSpanContext(trace.SpanContextConfig{TraceID: tid, SpanID: psid, Remote: psid[0] != 0})
				})
			}
		}
	}
	flush()
	for k := trace.SpanKindUnspecified; k <= trace.SpanKindConsumer; k++ {
		k := k
		mk("kind", func(s *tracetest.SpanStub) { s.SpanKind = k })
		// the attributes that select a remote endpoint must not disturb the kind
		mk("kind", func(s *tracetest.SpanStub) {
			s.SpanKind = k
			s.Attributes = []attribute.KeyValue{attribute.String("peer.service", "db"), attribute.String("network.peer.address", "10.0.0.1"), attribute.Int("network.peer.port", 80)}
		})
	}
	flush()
	for _, n := range []string{"", "n", "lower case with spaces", "MiXed Case", "ünï ✓ \x00\n\"", strings.Repeat("0123456789abcdef", 4096)} {
		n := n
		mk("name", func(s *tracetest.SpanStub) { s.Name = n })
	}
	flush()
	// start x duration, inside Zipkin's domain (start at least one second after the epoch, end >= start;
	// the last start, ...775499 ns, is the latest one whose nearest microsecond is still below 2^63 ns)
	starts := []time.Time{time.Unix(1, 0), time.Unix(1, 1), time.Unix(1, 499), time.Unix(1, 500), time.Unix(1, 999),
		time.Date(2000, 1, 1, 0, 0, 0, 0, time.FixedZone("east", 5*3600)), zBase, time.Unix(0, math.MaxInt64-999), time.Unix(0, math.MaxInt64-308)}
	durs := []time.Duration{0, 1, 499, 500, 999, 1000, 1001, 1499, 1500, 1999, time.Second, time.Hour + 1, 100 * 365 * 24 * time.Hour}
	for _, st := range starts {
		for _, d := range durs {
			st, d := st, d
			end := new(big.Int).Add(unixNanos(st), big.NewInt(int64(d)))
			if !end.IsInt64() {
				continue // beyond 2262
			}
			mk("time", func(s *tracetest.SpanStub) { s.StartTime, s.EndTime = st, time.Unix(0, end.Int64()) })
		}
	}
	mk("time", func(s *tracetest.SpanStub) { s.StartTime, s.EndTime = time.Time{}, time.Time{} })
	mk("time", func(s *tracetest.SpanStub) { s.StartTime, s.EndTime = time.Unix(1, 0), time.Unix(0, math.MaxInt64) })
	flush()
	// things around the listed fields must not disturb them: status, scope, events, links, resource
	mk("other", func(s *tracetest.SpanStub) { s.Resource = nil })
	mk("other", func(s *tracetest.SpanStub) { s.Resource = resource.Empty() })
	mk("other", func(s *tracetest.SpanStub) { s.InstrumentationScope = instrumentation.Scope{Name: "lib", Version: "1"} })
	mk("other", func(s *tracetest.SpanStub) {
		s.Attributes = []attribute.KeyValue{attribute.String("error", "x"), attribute.Int64Slice("is", []int64{1, 2})}
	})
	flush()
	return fams
}

func TestVerifC13Zipkin(t *testing.T) {
	enum.Jobs([]string{"fields", "batches"}, func(job string) {
		r := enum.Start("C13", "zipkin")
		defer r.Finish()
		c := &c13zipkin{r: r}
		fams := zipkinFamilies()
		n := 0
		for _, f := range fams {
			n += len(f)
		}
		r.Bound("zipkin_field_variants", n)
		maxLen := enum.Pick(r, 3, 4)
		r.Bound("zipkin_max_batch_len_over_6_spans", maxLen)
		r.Section(job)
		switch job {
		case "fields":
			for fi, fam := range fams {
				for i := range fam {
					if r.Want() {
						c.check(fmt.Sprintf("family %d (%s) variant %d", fi, fam[i].Field, i), []zcase{fam[i]})
					}
				}
				for i := range fam {
					j := (i + 1) % len(fam)
					if r.Want() {
						c.check(fmt.Sprintf("family %d (%s) variants %d+%d", fi, fam[i].Field, i, j), []zcase{fam[i], fam[j]})
					}
				}
				if r.Want() { // the whole family as one batch
					c.check(fmt.Sprintf("family %d (%s) all %d variants in one batch", fi, fam[0].Field, len(fam)), fam)
				}
			}
		case "batches":
			// every sequence (repetition allowed) of length <= maxLen over six spans that differ in
			// ids, parent, kind and times: each occurrence must appear exactly once
			six := []zcase{fams[0][5], fams[0][27], fams[1][2], fams[1][5], fams[3][3], fams[3][40]}
			for L := 0; L <= maxLen && !r.Expired(); L++ {
				seq := make([]int, L)
				var rec func(i int)
				rec = func(i int) {
					if r.Expired() {
						return
					}
					if i == L {
						if r.Want() {
							b := make([]zcase, L)
							for k, s := range seq {
								b[k] = six[s]
							}
							c.check(fmt.Sprintf("batch %v", seq), b)
						}
						return
					}
					for v := range six {
						seq[i] = v
						rec(i + 1)
					}
				}
				rec(0)
			}
		}
	})
}
