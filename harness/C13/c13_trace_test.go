package otlptrace_test

// C13 — OTLP spans are encoded faithfully. Every enumerated batch of read-only spans goes
// through the real exporter (otlptrace.New with a capturing client, i.e. the request handed to
// UploadTraces by both the gRPC and the HTTP trace exporter), a wire marshal/unmarshal and a
// decode into neutral items that is compared, as a multiset, with neutral items derived from
// the span descriptions by the harness.

import (
	"context"
	"fmt"
	"math"
	"strconv"
	"strings"
	"testing"
	"time"

	tracepb "go.opentelemetry.io/proto/otlp/trace/v1"
	"google.golang.org/protobuf/proto"

	"go.opentelemetry.io/otel/attribute"
	"go.opentelemetry.io/otel/codes"
	"go.opentelemetry.io/otel/exporters/otlp/otlptrace"
	"go.opentelemetry.io/otel/sdk/instrumentation"
	"go.opentelemetry.io/otel/sdk/resource"
	tracesdk "go.opentelemetry.io/otel/sdk/trace"
	"go.opentelemetry.io/otel/sdk/trace/tracetest"
	"go.opentelemetry.io/otel/trace"
	"verif/mc/enum"
)

type capClient struct{ got []*tracepb.ResourceSpans }

func (c *capClient) Start(context.Context) error { return nil }
func (c *capClient) Stop(context.Context) error  { return nil }
func (c *capClient) UploadTraces(_ context.Context, rs []*tracepb.ResourceSpans) error {
	c.got = append(c.got, rs...)
	return nil
}

func idKey(sc trace.SpanContext) string {
	t, s := sc.TraceID(), sc.SpanID()
	return xID(t[:]) + "/" + xID(s[:])
}

func expectSpan(s *tracetest.SpanStub) item {
	tid, sid, psid := s.SpanContext.TraceID(), s.SpanContext.SpanID(), s.Parent.SpanID()
	kind := map[trace.SpanKind]string{trace.SpanKindUnspecified: "unspecified", trace.SpanKindInternal: "internal", trace.SpanKindServer: "server",
		trace.SpanKindClient: "client", trace.SpanKindProducer: "producer", trace.SpanKindConsumer: "consumer"}[s.SpanKind]
	code := map[codes.Code]string{codes.Unset: "unset", codes.Error: "error", codes.Ok: "ok"}[s.Status.Code]
	var evTime, evAttrs, evDropped, lnIDs, lnState, lnRemote, lnAttrs, lnDropped []string
	for _, e := range s.Events {
		k := short(e.Name) + "→"
		evTime = append(evTime, k+xTime(e.Time))
		evAttrs = append(evAttrs, k+xAttrs(e.Attributes))
		evDropped = append(evDropped, k+xCount(e.DroppedAttributeCount))
	}
	for _, l := range s.Links {
		k := idKey(l.SpanContext) + "→"
		lnIDs = append(lnIDs, idKey(l.SpanContext))
		lnState = append(lnState, k+strconv.Quote(l.SpanContext.TraceState().String()))
		lnRemote = append(lnRemote, k+strconv.FormatBool(l.SpanContext.IsRemote()))
		lnAttrs = append(lnAttrs, k+xAttrs(l.Attributes))
		lnDropped = append(lnDropped, k+xCount(l.DroppedAttributeCount))
	}
	return item{
		Res:   xResource(s.Resource),
		Scope: xScope(s.InstrumentationScope),
		F: []kv{
			{K: "trace_id", V: xID(tid[:])},
			{K: "span_id", V: xID(sid[:])},
			{K: "trace_state", V: strconv.Quote(s.SpanContext.TraceState().String())},
			{K: "parent_span_id", V: xID(psid[:])},
			{K: "parent_is_remote", V: strconv.FormatBool(s.Parent.IsRemote())},
			{K: "name", V: short(s.Name)},
			{K: "kind", V: kind},
			{K: "start_time", V: xTime(s.StartTime)},
			{K: "end_time", V: xTime(s.EndTime)},
			{K: "attributes", V: xAttrs(s.Attributes)},
			{K: "dropped_attributes", V: xCount(s.DroppedAttributes)},
			{K: "dropped_events", V: xCount(s.DroppedEvents)},
			{K: "dropped_links", V: xCount(s.DroppedLinks)},
			{K: "status.code", V: code},
			{K: "status.message", V: short(s.Status.Description)},
			{K: "event.count", V: strconv.Itoa(len(s.Events))},
			{K: "event.time", V: "[" + joinSorted(evTime) + "]"},
			{K: "event.attributes", V: "[" + joinSorted(evAttrs) + "]"},
			{K: "event.dropped_attributes", V: "[" + joinSorted(evDropped) + "]"},
			{K: "link.ids", V: "[" + joinSorted(lnIDs) + "]"},
			{K: "link.trace_state", V: "[" + joinSorted(lnState) + "]"},
			{K: "link.is_remote", V: "[" + joinSorted(lnRemote) + "]"},
			{K: "link.attributes", V: "[" + joinSorted(lnAttrs) + "]"},
			{K: "link.dropped_attributes", V: "[" + joinSorted(lnDropped) + "]"},
		},
	}
}

func pRemote(flags uint32) string {
	if flags&uint32(tracepb.SpanFlags_SPAN_FLAGS_CONTEXT_HAS_IS_REMOTE_MASK) == 0 {
		return "unknown"
	}
	return strconv.FormatBool(flags&uint32(tracepb.SpanFlags_SPAN_FLAGS_CONTEXT_IS_REMOTE_MASK) != 0)
}

func decodeSpans(d *tracepb.TracesData) []item {
	var out []item
	for _, rs := range d.GetResourceSpans() {
		res := pResource(rs.GetResource(), rs.GetSchemaUrl())
		for _, ss := range rs.GetScopeSpans() {
			sc := pScope(ss.GetScope(), ss.GetSchemaUrl())
			for _, s := range ss.GetSpans() {
				kind := map[tracepb.Span_SpanKind]string{tracepb.Span_SPAN_KIND_UNSPECIFIED: "unspecified", tracepb.Span_SPAN_KIND_INTERNAL: "internal", tracepb.Span_SPAN_KIND_SERVER: "server",
					tracepb.Span_SPAN_KIND_CLIENT: "client", tracepb.Span_SPAN_KIND_PRODUCER: "producer", tracepb.Span_SPAN_KIND_CONSUMER: "consumer"}[s.GetKind()]
				if kind == "" {
					kind = fmt.Sprintf("enum(%d)", int32(s.GetKind()))
				}
				code := map[tracepb.Status_StatusCode]string{tracepb.Status_STATUS_CODE_UNSET: "unset", tracepb.Status_STATUS_CODE_ERROR: "error", tracepb.Status_STATUS_CODE_OK: "ok"}[s.GetStatus().GetCode()]
				if code == "" {
					code = fmt.Sprintf("enum(%d)", int32(s.GetStatus().GetCode()))
				}
				var evTime, evAttrs, evDropped, lnIDs, lnState, lnRemote, lnAttrs, lnDropped []string
				for _, e := range s.GetEvents() {
					k := short(e.GetName()) + "→"
					evTime = append(evTime, k+pTime(e.GetTimeUnixNano()))
					evAttrs = append(evAttrs, k+pAttrs(e.GetAttributes()))
					evDropped = append(evDropped, k+strconv.FormatUint(uint64(e.GetDroppedAttributesCount()), 10))
				}
				for _, l := range s.GetLinks() {
					id := pID(l.GetTraceId(), 16) + "/" + pID(l.GetSpanId(), 8)
					k := id + "→"
					lnIDs = append(lnIDs, id)
					lnState = append(lnState, k+strconv.Quote(l.GetTraceState()))
					lnRemote = append(lnRemote, k+pRemote(l.GetFlags()))
					lnAttrs = append(lnAttrs, k+pAttrs(l.GetAttributes()))
					lnDropped = append(lnDropped, k+strconv.FormatUint(uint64(l.GetDroppedAttributesCount()), 10))
				}
				out = append(out, item{Res: res, Scope: sc, F: []kv{
					{K: "trace_id", V: pID(s.GetTraceId(), 16)},
					{K: "span_id", V: pID(s.GetSpanId(), 8)},
					{K: "trace_state", V: strconv.Quote(s.GetTraceState())},
					{K: "parent_span_id", V: pID(s.GetParentSpanId(), 8)},
					{K: "parent_is_remote", V: pRemote(s.GetFlags())},
					{K: "name", V: short(s.GetName())},
					{K: "kind", V: kind},
					{K: "start_time", V: pTime(s.GetStartTimeUnixNano())},
					{K: "end_time", V: pTime(s.GetEndTimeUnixNano())},
					{K: "attributes", V: pAttrs(s.GetAttributes())},
					{K: "dropped_attributes", V: strconv.FormatUint(uint64(s.GetDroppedAttributesCount()), 10)},
					{K: "dropped_events", V: strconv.FormatUint(uint64(s.GetDroppedEventsCount()), 10)},
					{K: "dropped_links", V: strconv.FormatUint(uint64(s.GetDroppedLinksCount()), 10)},
					{K: "status.code", V: code},
					{K: "status.message", V: short(s.GetStatus().GetMessage())},
					{K: "event.count", V: strconv.Itoa(len(s.GetEvents()))},
					{K: "event.time", V: "[" + joinSorted(evTime) + "]"},
					{K: "event.attributes", V: "[" + joinSorted(evAttrs) + "]"},
					{K: "event.dropped_attributes", V: "[" + joinSorted(evDropped) + "]"},
					{K: "link.ids", V: "[" + joinSorted(lnIDs) + "]"},
					{K: "link.trace_state", V: "[" + joinSorted(lnState) + "]"},
					{K: "link.is_remote", V: "[" + joinSorted(lnRemote) + "]"},
					{K: "link.attributes", V: "[" + joinSorted(lnAttrs) + "]"},
					{K: "link.dropped_attributes", V: "[" + joinSorted(lnDropped) + "]"},
				}})
			}
		}
	}
	return out
}

type spanCase struct {
	S     tracetest.SpanStub
	Field string
	Class string
	Solo  bool // not combined with other variants in one batch
}

type c13trace struct{ r *enum.R }

func (c *c13trace) check(desc string, batch []spanCase) {
	r := c.r
	r.Eval()
	exp := make([]item, len(batch))
	stubs := make(tracetest.SpanStubs, len(batch))
	for i := range batch {
		exp[i] = expectSpan(&batch[i].S)
		stubs[i] = batch[i].S
	}
	cas := func() any {
		var xs []string
		for i := range exp {
			xs = append(xs, exp[i].String())
		}
		return map[string]any{"input": desc, "spans": xs}
	}
	cl := &capClient{}
	var eerr error
	if p := func() (p any) {
		defer func() { p = recover() }()
		e, err := otlptrace.New(context.Background(), cl)
		if err != nil {
			panic("harness: otlptrace.New: " + err.Error())
		}
		eerr = e.ExportSpans(context.Background(), stubs.Snapshots())
		return nil
	}(); p != nil {
		r.FailHere("panic|trace exporter", cas(), "ExportSpans panicked: %v", p)
		return
	}
	if eerr != nil {
		r.FailHere("trace|export-error", cas(), "ExportSpans returned %v with a client that accepts everything", eerr)
	}
	wire, err := proto.Marshal(&tracepb.TracesData{ResourceSpans: cl.got})
	if err != nil {
		r.FailHere("wire|trace payload does not marshal", cas(), "proto.Marshal: %v", err)
		return
	}
	var back tracepb.TracesData
	if err := proto.Unmarshal(wire, &back); err != nil {
		r.FailHere("wire|trace payload does not unmarshal", cas(), "proto.Unmarshal: %v", err)
		return
	}
	got := decodeSpans(&back)
	r.Outcome(itemsOutcome(got))
	r.Sample(cas)
	if key, msg, idx := diffItemsIdx(exp, got); key != "" {
		key = classKey(key, idx, func(i int) string { return batch[i].Field }, func(i int) string { return batch[i].Class })
		r.FailHere("trace|"+key, cas(), "%s", msg)
	}
}

// ---------------------------------------------------------------------------- enumeration

var tBase = time.Date(2024, 5, 6, 7, 8, 9, 123456789, time.UTC)

func spanTimes() []time.Time {
	return []time.Time{
		{},
		time.Unix(0, 0),
		time.Unix(0, 1),
		time.Date(2000, 1, 1, 0, 0, 0, 0, time.FixedZone("east", 5*3600)),
		time.Unix(0, math.MaxInt64),
	}
}

func mustState(s string) trace.TraceState {
	ts, err := trace.ParseTraceState(s)
	if err != nil {
		panic(err)
	}
	return ts
}

func sctx(tid trace.TraceID, sid trace.SpanID, flags trace.TraceFlags, state string, remote bool) trace.SpanContext {
	return trace.NewSpanContext(trace.SpanContextConfig{TraceID: tid, SpanID: sid, TraceFlags: flags, TraceState: mustState(state), Remote: remote})
}

func defaultSpan(i int) tracetest.SpanStub {
	return tracetest.SpanStub{
		Name:        fmt.Sprintf("span-%d", i),
		SpanContext: sctx(trace.TraceID{0: 0xab, 15: 1}, trace.SpanID{0: 0xcd, 7: byte(i + 1)}, trace.FlagsSampled, "", false),
		SpanKind:    trace.SpanKindInternal,
		StartTime:   tBase.Add(time.Duration(i) * time.Millisecond),
		EndTime:     tBase.Add(time.Duration(i)*time.Millisecond + 250*time.Microsecond),
	}
}

var (
	allFF16 = trace.TraceID{0xff, 0xff, 0xff, 0xff, 0xff, 0xff, 0xff, 0xff, 0xff, 0xff, 0xff, 0xff, 0xff, 0xff, 0xff, 0xff}
	allFF8  = trace.SpanID{0xff, 0xff, 0xff, 0xff, 0xff, 0xff, 0xff, 0xff}
	counts  = []int{0, 1, 2, math.MaxUint32 - 1, math.MaxUint32, math.MaxUint32 + 1, math.MaxUint32 + 2, math.MaxInt64}
)

func spanFamilies() [][]spanCase {
	var fams [][]spanCase
	var fam []spanCase
	mk := func(field, class string, mod func(s *tracetest.SpanStub)) {
		s := defaultSpan(len(fam) % 200)
		mod(&s)
		fam = append(fam, spanCase{S: s, Field: field, Class: class})
	}
	flush := func() { fams, fam = append(fams, fam), nil }

	for k := trace.SpanKindUnspecified; k <= trace.SpanKindConsumer; k++ {
		k := k
		mk("kind", "", func(s *tracetest.SpanStub) { s.SpanKind = k })
	}
	flush()
	for _, code := range []codes.Code{codes.Unset, codes.Error, codes.Ok} {
		for _, d := range []string{"", "boom", "Ünï ✓"} {
			code, d := code, d
			mk("status", "", func(s *tracetest.SpanStub) { s.Status = tracesdk.Status{Code: code, Description: d} })
		}
	}
	flush()
	// identity and parentage
	for _, tid := range []trace.TraceID{{}, {15: 1}, {0: 0x80}, {7: 1}, allFF16} {
		for _, sid := range []trace.SpanID{{}, {7: 1}, {0: 0x80}, allFF8} {
			for _, st := range []string{"", "a=1", "a=1,b=2"} {
				tid, sid, st := tid, sid, st
				mk("ids", "", func(s *tracetest.SpanStub) { s.SpanContext = sctx(tid, sid, 0, st, false) })
			}
		}
	}
	flush()
	for _, psid := range []trace.SpanID{{}, {7: 9}, {0: 0x80}, allFF8} {
		for _, remote := range []bool{false, true} {
			for _, fl := range []trace.TraceFlags{0, trace.FlagsSampled} {
				psid, remote, fl := psid, remote, fl
				mk("parent", "", func(s *tracetest.SpanStub) { s.Parent = sctx(s.SpanContext.TraceID(), psid, fl, "p=1", remote) })
				// the parent's span id is what is exported, whatever trace id the parent context holds
				// (the SDK itself keeps a parent with a span id and no trace id when it has to mint a trace id)
				mk("parent", "parent context without a trace id", func(s *tracetest.SpanStub) { s.Parent = sctx(trace.TraceID{}, psid, fl, "", remote) })
				mk("parent", "parent context with another trace id", func(s *tracetest.SpanStub) { s.Parent = sctx(trace.TraceID{3: 7}, psid, fl, "", remote) })
			}
		}
	}
	flush()
	for _, n := range []string{"", "n", "Ünï ✓ \x00\n\"", strings.Repeat("0123456789abcdef", 4096)} {
		n := n
		mk("name", "", func(s *tracetest.SpanStub) { s.Name = n })
	}
	flush()
	for _, a := range spanTimes() {
		for _, b := range spanTimes() {
			a, b := a, b
			mk("time", "", func(s *tracetest.SpanStub) { s.StartTime, s.EndTime = a, b })
		}
	}
	flush()
	// attributes: each value type alone, all together (duplicate keys included), none, empty non-nil
	af := attrFamily()
	for i := range af {
		i := i
		mk("attributes", "", func(s *tracetest.SpanStub) { s.Attributes = af[i : i+1] })
	}
	mk("attributes", "", func(s *tracetest.SpanStub) { s.Attributes = af })
	mk("attributes", "", func(s *tracetest.SpanStub) { s.Attributes = []attribute.KeyValue{} })
	flush()
	for _, n := range counts {
		n := n
		mk("dropped_attributes", "", func(s *tracetest.SpanStub) { s.DroppedAttributes = n })
		mk("dropped_events", "", func(s *tracetest.SpanStub) { s.DroppedEvents = n })
		mk("dropped_links", "", func(s *tracetest.SpanStub) { s.DroppedLinks = n })
	}
	flush()
	// events: 0..2 per span; names, times, attributes, dropped counts
	ev := func(name string, t time.Time, d int, as ...attribute.KeyValue) tracesdk.Event {
		return tracesdk.Event{Name: name, Time: t, DroppedAttributeCount: d, Attributes: as}
	}
	mk("event", "", func(s *tracetest.SpanStub) { s.Events = []tracesdk.Event{} })
	for ti, t := range spanTimes() {
		for ci, d := range counts {
			t, d := t, d
			if ti != 3 && ci > 1 && ci != 5 {
				continue // full count list against one time only
			}
			mk("event", "", func(s *tracetest.SpanStub) { s.Events = []tracesdk.Event{ev("e1", t, d)} })
			mk("event", "", func(s *tracetest.SpanStub) {
				s.Events = []tracesdk.Event{ev("e1", t, d, attribute.Int("n", 1)), ev("e2", tBase, 0, attribute.String("k", "v"), attribute.Bool("b", true))}
			})
		}
	}
	for i := range af {
		i := i
		mk("event", "", func(s *tracetest.SpanStub) {
			s.Events = []tracesdk.Event{ev("", tBase, 0, af[i]), ev("Ünï ✓", tBase.Add(1), 3)}
		})
	}
	// many items per span: the SDK's default limits (128) are configuration, not a bound of the
	// encoding -- a provider with raised limits hands the exporter longer lists
	for _, n := range []int{127, 128, 129, 300, 1000} {
		n := n
		mk("event.count", fmt.Sprintf("%d events", n), func(s *tracetest.SpanStub) {
			s.Events = make([]tracesdk.Event, n)
			for i := range s.Events {
				s.Events[i] = ev(fmt.Sprintf("e%d", i), tBase.Add(time.Duration(i)), 0)
			}
		})
		mk("link.count", fmt.Sprintf("%d links", n), func(s *tracetest.SpanStub) {
			s.Links = make([]tracesdk.Link, n)
			for i := range s.Links {
				s.Links[i] = tracesdk.Link{SpanContext: sctx(trace.TraceID{15: 7}, trace.SpanID{6: byte(i >> 8), 7: byte(i)}, 0, "", false)}
			}
		})
		mk("attributes.count", fmt.Sprintf("%d attributes", n), func(s *tracetest.SpanStub) {
			s.Attributes = make([]attribute.KeyValue, n)
			for i := range s.Attributes {
				s.Attributes[i] = attribute.Int(fmt.Sprintf("k%04d", i), i)
			}
		})
	}
	flush()
	// links: 0..2 per span; ids, trace state, remote, flags, attributes, dropped counts
	ln := func(sc trace.SpanContext, d int, as ...attribute.KeyValue) tracesdk.Link {
		return tracesdk.Link{SpanContext: sc, DroppedAttributeCount: d, Attributes: as}
	}
	mk("link", "", func(s *tracetest.SpanStub) { s.Links = []tracesdk.Link{} })
	for _, tid := range []trace.TraceID{{}, {15: 7}, allFF16} {
		for _, sid := range []trace.SpanID{{}, {7: 7}, allFF8} {
			for _, remote := range []bool{false, true} {
				for _, fl := range []trace.TraceFlags{0, trace.FlagsSampled} {
					tid, sid, remote, fl := tid, sid, remote, fl
					mk("link", "", func(s *tracetest.SpanStub) { s.Links = []tracesdk.Link{ln(sctx(tid, sid, fl, "", remote), 0)} })
					mk("link", "", func(s *tracetest.SpanStub) {
						s.Links = []tracesdk.Link{ln(sctx(tid, sid, fl, "", remote), 1, attribute.Int("n", 1)), ln(sctx(trace.TraceID{15: 8}, trace.SpanID{7: 8}, 0, "", !remote), 0, attribute.String("k", "v"))}
					})
				}
			}
		}
	}
	for _, d := range counts {
		d := d
		mk("link", "", func(s *tracetest.SpanStub) {
			s.Links = []tracesdk.Link{ln(sctx(trace.TraceID{15: 7}, trace.SpanID{7: 7}, 0, "", false), d)}
		})
	}
	for i := range af {
		i := i
		mk("link", "", func(s *tracetest.SpanStub) {
			s.Links = []tracesdk.Link{ln(sctx(trace.TraceID{15: 7}, trace.SpanID{7: 7}, 0, "", false), 0, af[i])}
		})
	}
	flush()
	for _, st := range []string{"", "a=1", "a=1,b=2"} {
		st := st
		cl := "link with trace state"
		if st == "" {
			cl = "link without trace state"
		}
		mk("link.trace_state", cl, func(s *tracetest.SpanStub) {
			s.Links = []tracesdk.Link{ln(sctx(trace.TraceID{15: 7}, trace.SpanID{7: 7}, 0, st, false), 0)}
		})
		mk("link.trace_state", cl, func(s *tracetest.SpanStub) {
			s.Links = []tracesdk.Link{ln(sctx(trace.TraceID{15: 7}, trace.SpanID{7: 7}, 0, st, true), 0), ln(sctx(trace.TraceID{15: 8}, trace.SpanID{7: 8}, 1, "", false), 0)}
		})
	}
	flush()
	// resource and scope content
	for i := -1; i < len(af); i++ {
		as := af
		if i >= 0 {
			as = af[i : i+1]
		}
		mk("resource", "", func(s *tracetest.SpanStub) { s.Resource = resource.NewSchemaless(as...) })
		mk("scope", "", func(s *tracetest.SpanStub) {
			s.InstrumentationScope = instrumentation.Scope{Name: "n", Attributes: attribute.NewSet(as...)}
		})
	}
	// a resource with a schema URL and no attributes: alone in its batch (next to a span without
	// resource it would be the same resource under another URL, which is not judged)
	mk("resource", "", func(s *tracetest.SpanStub) { s.Resource = resource.NewWithAttributes("https://example.test/only-url") })
	fam[len(fam)-1].Solo = true
	mk("scope", "", func(s *tracetest.SpanStub) {
		s.InstrumentationScope = instrumentation.Scope{SchemaURL: "https://example.test/only-url"}
	})
	mk("scope", "", func(s *tracetest.SpanStub) { s.InstrumentationScope = instrumentation.Scope{Version: "only-version"} })
	flush()
	return fams
}

func traceJobs(thorough bool) []string {
	jobs := []string{"fields", "group/six"}
	if !thorough {
		return append(jobs, "group/all")
	}
	for i := 0; i < 30; i++ { // 5 resources x 6 scopes
		jobs = append(jobs, fmt.Sprintf("group/first=%02d", i))
	}
	return jobs
}

func TestVerifC13Trace(t *testing.T) {
	enum.Jobs(traceJobs(enumTierThorough()), func(job string) {
		r := enum.Start("C13", "trace")
		defer r.Finish()
		c := &c13trace{r: r}
		rs, ss := resAlphabet(true), scopeAlphabet()
		six := sixPairs()
		maxAll := enum.Pick(r, 3, 4)
		maxSix := enum.Pick(r, 4, 6)
		r.Bound("trace_resources", len(rs))
		r.Bound("trace_scopes", len(ss))
		r.Bound("trace_max_batch_all_pairs", maxAll)
		r.Bound("trace_max_batch_six_pairs", maxSix)
		r.Section(job)
		group := func(pairs [][2]int, seq []int) {
			if !r.Want() {
				return
			}
			batch := make([]spanCase, len(seq))
			var names []string
			for i, p := range seq {
				s := defaultSpan(i)
				s.Resource = rs[pairs[p][0]].R
				s.InstrumentationScope = ss[pairs[p][1]].S
				batch[i] = spanCase{S: s}
				names = append(names, rs[pairs[p][0]].Name+"/"+ss[pairs[p][1]].Name)
			}
			c.check("group "+strings.Join(names, " "), batch)
		}
		var all [][2]int
		for ri := range rs {
			for si := range ss {
				all = append(all, [2]int{ri, si})
			}
		}
		switch {
		case job == "fields":
			fams := spanFamilies()
			n := 0
			for _, f := range fams {
				n += len(f)
			}
			r.Bound("trace_field_variants", n)
			for fi, fam := range fams {
				for i := range fam {
					if r.Want() {
						c.check(fmt.Sprintf("family %d (%s) variant %d", fi, fam[i].Field, i), []spanCase{fam[i]})
					}
				}
				for i := range fam {
					j := (i + 1) % len(fam)
					if r.Want() && !fam[i].Solo && !fam[j].Solo {
						c.check(fmt.Sprintf("family %d (%s) variants %d+%d", fi, fam[i].Field, i, j), []spanCase{fam[i], fam[j]})
					}
				}
			}
		case job == "group/six":
			for L := 0; L <= maxSix && !r.Expired(); L++ {
				eachSeq(len(six), L, -1, func(seq []int) bool { group(six, seq); return !r.Expired() })
			}
		case job == "group/all":
			for L := 0; L <= maxAll && !r.Expired(); L++ {
				eachSeq(len(all), L, -1, func(seq []int) bool { group(all, seq); return !r.Expired() })
			}
		default:
			var first int
			fmt.Sscanf(job, "group/first=%d", &first)
			for L := 1; L <= maxAll && !r.Expired(); L++ {
				eachSeq(len(all), L, first, func(seq []int) bool { group(all, seq); return !r.Expired() })
			}
		}
	})
}
