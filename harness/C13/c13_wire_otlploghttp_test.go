package otlploghttp

// C13 (unit wire-otlploghttp) — what the exporter puts on the wire; see internal/verifc13w.
// newHTTPClient hides its httpClient behind a method value, so the harness assembles the
// httpClient the way newHTTPClient does (as the C14 harness of this package).

import (
	"context"
	"fmt"
	"net/http"
	"net/url"
	"testing"
	"time"

	"google.golang.org/protobuf/proto"

	"go.opentelemetry.io/otel/exporters/otlp/otlplog/otlploghttp/internal/transform"
	"go.opentelemetry.io/otel/internal/verifc13w"
	"go.opentelemetry.io/otel/log"
	sdklog "go.opentelemetry.io/otel/sdk/log"
	"go.opentelemetry.io/otel/sdk/log/logtest"
	collogpb "go.opentelemetry.io/proto/otlp/collector/logs/v1"
)

type c13wExporter struct {
	e  *Exporter
	bs [][]sdklog.Record
}

func (x c13wExporter) Export(ctx context.Context, b int) error { return x.e.Export(ctx, x.bs[b]) }
func (x c13wExporter) Shutdown(ctx context.Context) error      { return x.e.Shutdown(ctx) }

func c13wBatch(svc string, n int) []sdklog.Record {
	t0 := time.Unix(1700000000, 0)
	var rs []sdklog.Record
	for i := 0; i < n; i++ {
		rs = append(rs, logtest.RecordFactory{
			Timestamp: t0.Add(time.Duration(i) * time.Millisecond), ObservedTimestamp: t0, Severity: log.SeverityInfo,
			Body:       log.StringValue(fmt.Sprintf("%s-record-%d", svc, i)),
			Attributes: []log.KeyValue{log.String("owner", svc), log.Int("i", i)},
		}.NewRecord())
	}
	return rs
}

func TestVerifC13Wire(t *testing.T) {
	bs := [][]sdklog.Record{c13wBatch("small", 1), c13wBatch("medium", 12), c13wBatch("large", 1200), c13wBatch("other-exporter", 80)}
	want := make([]*collogpb.ExportLogsServiceRequest, len(bs))
	for i, b := range bs {
		want[i] = &collogpb.ExportLogsServiceRequest{ResourceLogs: transform.ResourceLogs(b)}
	}
	verifc13w.Run(t, verifc13w.Target{
		Name:    "otlploghttp",
		Batches: []string{"small (1 record)", "medium (12 records)", "large (1200 records)", "the second exporter's batch (80 records)"},
		Check: func(b int, body []byte) string {
			var got collogpb.ExportLogsServiceRequest
			if err := proto.Unmarshal(body, &got); err != nil {
				return "not an ExportLogsServiceRequest: " + err.Error()
			}
			if !proto.Equal(&got, want[b]) {
				n := 0
				for _, rl := range got.ResourceLogs {
					for _, sl := range rl.ScopeLogs {
						n += len(sl.LogRecords)
					}
				}
				return fmt.Sprintf("decodes to a different request (%d bytes, %d records; the conversion of the batch has %d bytes)", len(body), n, proto.Size(want[b]))
			}
			return ""
		},
		New: func(gz bool, host string) verifc13w.Exporter {
			comp := NoCompression
			if gz {
				comp = GzipCompression
			}
			cfg := newConfig([]Option{WithInsecure(), WithEndpoint(host), WithCompression(comp),
				WithRetry(RetryConfig{Enabled: true, InitialInterval: time.Nanosecond, MaxInterval: time.Nanosecond, MaxElapsedTime: time.Minute})})
			u := &url.URL{Scheme: "http", Host: cfg.endpoint.Value, Path: cfg.path.Value}
			req, err := http.NewRequest(http.MethodPost, u.String(), http.NoBody)
			if err != nil {
				panic(err)
			}
			req.Header.Set("User-Agent", "OTel Go OTLP over HTTP/protobuf logs exporter/"+Version())
			req.Header.Set("Content-Type", "application/x-protobuf")
			hc := &httpClient{
				compression: cfg.compression.Value,
				req:         req,
				requestFunc: cfg.retryCfg.Value.RequestFunc(evaluate),
				client:      &http.Client{Transport: verifc13w.RoundTripper(), Timeout: cfg.timeout.Value},
			}
			e, err := newExporter(&client{uploadLogs: hc.uploadLogs}, cfg)
			if err != nil {
				panic(err)
			}
			return c13wExporter{e: e, bs: bs}
		},
	})
}
