package transform

// C13 — helpers shared by the OTLP harnesses: canonical strings for SDK values (expected side)
// and for decoded protobuf values (observed side), the (resource, scope) grouping alphabet, an
// id-free multiset comparison that names the first differing component, and the gRPC/HTTP
// rendezvous. c13_common_trace_test.go is this very file with another package clause (gen.sh).

import (
	"crypto/sha256"
	"encoding/hex"
	"encoding/json"
	"fmt"
	"math"
	"math/big"
	"os"
	"path/filepath"
	"regexp"
	"sort"
	"strconv"
	"strings"
	"time"

	cpb "go.opentelemetry.io/proto/otlp/common/v1"
	rpb "go.opentelemetry.io/proto/otlp/resource/v1"

	"go.opentelemetry.io/otel/attribute"
	"go.opentelemetry.io/otel/sdk/instrumentation"
	"go.opentelemetry.io/otel/sdk/resource"
	"verif/mc/enum"
)

// ---------------------------------------------------------------------------- neutral items

// kv is one named component of an item. Alt, when set, is a second acceptable value.
type kv struct{ K, V, Alt string }

// item is the neutral form of one span / metric / log record: the resource and scope it
// belongs to and its listed fields, all as canonical strings.
type item struct {
	Res, Scope string
	F          []kv
}

func (it item) String() string {
	var b strings.Builder
	fmt.Fprintf(&b, "resource=%s scope=%s", it.Res, it.Scope)
	for _, f := range it.F {
		fmt.Fprintf(&b, " %s=%s", f.K, f.V)
	}
	return b.String()
}

func sameField(e, g kv) bool { return e.V == g.V || (e.Alt != "" && e.Alt == g.V) }

// firstDiff returns the names of the components in which e (expected) and g (got) differ.
func diffComponents(e, g item) []string {
	var d []string
	if e.Res != g.Res {
		d = append(d, "resource")
	}
	if e.Scope != g.Scope {
		d = append(d, "scope")
	}
	if len(e.F) != len(g.F) {
		return append(d, "field-list")
	}
	for i := range e.F {
		if e.F[i].K != g.F[i].K || !sameField(e.F[i], g.F[i]) {
			d = append(d, e.F[i].K)
		}
	}
	return d
}

func fieldOf(it item, name string) string {
	switch name {
	case "resource":
		return it.Res
	case "scope":
		return it.Scope
	}
	for _, f := range it.F {
		if f.K == name {
			return f.V
		}
	}
	return "?"
}

// diffItemsIdx compares expected and decoded items as multisets (every item exactly once, under
// its own resource and scope, every listed field identical). It returns "" when they agree,
// otherwise a finding-key suffix naming the failing class, a message and the index of the expected
// item concerned (-1 when there is none).
func diffItemsIdx(exp, got []item) (key, msg string, idx int) {
	used := make([]bool, len(got))
	var expLeft, gotLeft []int
	for i := range exp {
		m := -1
		for j := range got {
			if !used[j] && len(diffComponents(exp[i], got[j])) == 0 {
				m = j
				break
			}
		}
		if m >= 0 {
			used[m] = true
		} else {
			expLeft = append(expLeft, i)
		}
	}
	for j := range got {
		if !used[j] {
			gotLeft = append(gotLeft, j)
		}
	}
	switch {
	case len(expLeft) == 0 && len(gotLeft) == 0:
		return "", "", -1
	case len(gotLeft) == 0:
		return "grouping|item-lost", fmt.Sprintf("%d of %d items not recovered; first: %s", len(expLeft), len(exp), exp[expLeft[0]]), expLeft[0]
	case len(expLeft) == 0:
		g := got[gotLeft[0]]
		for i := range exp {
			d := diffComponents(exp[i], g)
			if len(d) == 0 {
				return "grouping|item-duplicated", fmt.Sprintf("decoded %d items for %d inputs; recovered twice: %s", len(got), len(exp), g), i
			}
		}
		for i := range exp {
			e, gg := exp[i], g
			e.Res, e.Scope, gg.Res, gg.Scope = "", "", "", ""
			if len(diffComponents(e, gg)) == 0 {
				return "grouping|item-duplicated", fmt.Sprintf("decoded %d items for %d inputs; item also appears under another resource/scope: %s", len(got), len(exp), g), i
			}
		}
		return "grouping|phantom-item", fmt.Sprintf("decoded %d items for %d inputs; not an input: %s", len(got), len(exp), g), -1
	}
	// both sides have unmatched items: pair the closest two and name the first difference
	be, bg, bd := -1, -1, []string(nil)
	for _, e := range expLeft {
		for _, g := range gotLeft {
			d := diffComponents(exp[e], got[g])
			if be < 0 || len(d) < len(bd) {
				be, bg, bd = e, g, d
			}
		}
	}
	c := bd[0]
	msg = fmt.Sprintf("%s: expected %s, decoded %s (all differing components: %v; %d expected / %d decoded items unmatched)",
		c, fieldOf(exp[be], c), fieldOf(got[bg], c), bd, len(expLeft), len(gotLeft))
	switch c {
	case "resource":
		return "grouping|wrong-resource", msg, be
	case "scope":
		return "grouping|wrong-scope", msg, be
	}
	return "field|" + c, msg, be
}

// classKey narrows a "field|<name>" key by the class of the failing variant when the failing
// field is the one the variant's family varies: "=text" replaces the field name, other text is
// appended.
func classKey(key string, idx int, field, class func(i int) string) string {
	if idx < 0 || !strings.HasPrefix(key, "field|") {
		return key
	}
	f, c := field(idx), class(idx)
	if c == "" || !(key == "field|"+f || strings.HasPrefix(key, "field|"+f+".")) {
		return key
	}
	if strings.HasPrefix(c, "=") {
		return "field|" + c[1:]
	}
	return key + "|" + c
}

func enumTierThorough() bool { return os.Getenv("VERIF_TIER") == "thorough" }

func sideName() string {
	if s := os.Getenv("C13_SIDE"); s != "" {
		return s
	}
	return "unknown"
}

func itemsOutcome(got []item) string {
	s := make([]string, len(got))
	for i := range got {
		s[i] = got[i].String()
	}
	sort.Strings(s)
	h := sha256.Sum256([]byte(strings.Join(s, "\n")))
	return hex.EncodeToString(h[:8])
}

// ---------------------------------------------------------------------------- canonical values

func fb(f float64) string { return fmt.Sprintf("%016x", math.Float64bits(f)) }

func joinSorted(xs []string) string {
	sort.Strings(xs)
	return strings.Join(xs, ",")
}

func short(s string) string {
	if len(s) <= 48 {
		return strconv.Quote(s)
	}
	h := sha256.Sum256([]byte(s))
	return fmt.Sprintf("%s…(len %d sha %x)", strconv.Quote(s[:16]), len(s), h[:6])
}

// xValue: an attribute.Value read back through its public accessors.
func xValue(v attribute.Value) string {
	switch v.Type() {
	case attribute.BOOL:
		return fmt.Sprintf("bool:%v", v.AsBool())
	case attribute.INT64:
		return fmt.Sprintf("int:%d", v.AsInt64())
	case attribute.FLOAT64:
		return "dbl:" + fb(v.AsFloat64())
	case attribute.STRING:
		return "str:" + short(v.AsString())
	case attribute.BOOLSLICE:
		var xs []string
		for _, b := range v.AsBoolSlice() {
			xs = append(xs, fmt.Sprintf("bool:%v", b))
		}
		return "arr:[" + strings.Join(xs, " ") + "]"
	case attribute.INT64SLICE:
		var xs []string
		for _, i := range v.AsInt64Slice() {
			xs = append(xs, fmt.Sprintf("int:%d", i))
		}
		return "arr:[" + strings.Join(xs, " ") + "]"
	case attribute.FLOAT64SLICE:
		var xs []string
		for _, f := range v.AsFloat64Slice() {
			xs = append(xs, "dbl:"+fb(f))
		}
		return "arr:[" + strings.Join(xs, " ") + "]"
	case attribute.STRINGSLICE:
		var xs []string
		for _, s := range v.AsStringSlice() {
			xs = append(xs, "str:"+short(s))
		}
		return "arr:[" + strings.Join(xs, " ") + "]"
	}
	return "invalid-attribute-type"
}

// xAttrs: a list of attributes as a sorted multiset (attribute order is not a stated fact).
func xAttrs(kvs []attribute.KeyValue) string {
	xs := make([]string, 0, len(kvs))
	for _, a := range kvs {
		xs = append(xs, strconv.Quote(string(a.Key))+"="+xValue(a.Value))
	}
	return "{" + joinSorted(xs) + "}"
}

func xResource(r *resource.Resource) string {
	// a nil resource and an empty one are the same resource (resource.Equal)
	return fmt.Sprintf("attrs%s url=%q", xAttrs(r.Attributes()), r.SchemaURL())
}

func xScope(s instrumentation.Scope) string {
	return fmt.Sprintf("name=%q version=%q attrs%s url=%q", s.Name, s.Version, xAttrs(s.Attributes.ToSlice()), s.SchemaURL)
}

// pValue: a decoded AnyValue. An absent AnyValue and one without a value are both "empty".
func pValue(v *cpb.AnyValue) string {
	if v == nil {
		return "empty"
	}
	switch x := v.Value.(type) {
	case nil:
		return "empty"
	case *cpb.AnyValue_BoolValue:
		return fmt.Sprintf("bool:%v", x.BoolValue)
	case *cpb.AnyValue_IntValue:
		return fmt.Sprintf("int:%d", x.IntValue)
	case *cpb.AnyValue_DoubleValue:
		return "dbl:" + fb(x.DoubleValue)
	case *cpb.AnyValue_StringValue:
		return "str:" + short(x.StringValue)
	case *cpb.AnyValue_BytesValue:
		return "bytes:" + hex.EncodeToString(x.BytesValue)
	case *cpb.AnyValue_ArrayValue:
		var xs []string
		for _, e := range x.ArrayValue.GetValues() {
			xs = append(xs, pValue(e))
		}
		return "arr:[" + strings.Join(xs, " ") + "]"
	case *cpb.AnyValue_KvlistValue:
		return "map:" + pAttrs(x.KvlistValue.GetValues())
	}
	return fmt.Sprintf("unknown-anyvalue:%T", v.Value)
}

func pAttrs(kvs []*cpb.KeyValue) string {
	xs := make([]string, 0, len(kvs))
	for _, a := range kvs {
		xs = append(xs, strconv.Quote(a.GetKey())+"="+pValue(a.GetValue()))
	}
	return "{" + joinSorted(xs) + "}"
}

func pResource(r *rpb.Resource, url string) string {
	return fmt.Sprintf("attrs%s url=%q", pAttrs(r.GetAttributes()), url)
}

func pScope(s *cpb.InstrumentationScope, url string) string {
	return fmt.Sprintf("name=%q version=%q attrs%s url=%q", s.GetName(), s.GetVersion(), pAttrs(s.GetAttributes()), url)
}

// xTime: nanoseconds since the epoch computed from seconds and nanoseconds with math/big; the
// zero time.Time means "not set" and is 0 on the wire (documented by the transforms).
func xTime(t time.Time) string {
	if t.IsZero() {
		return "0"
	}
	n := new(big.Int).Mul(big.NewInt(t.Unix()), big.NewInt(1_000_000_000))
	n.Add(n, big.NewInt(int64(t.Nanosecond())))
	return n.String()
}

func pTime(u uint64) string { return strconv.FormatUint(u, 10) }

// inTimeDomain: the documented domain of the OTLP transforms, [1970, 2262] or unset.
func inTimeDomain(t time.Time) bool {
	if t.IsZero() {
		return true
	}
	n := new(big.Int).Mul(big.NewInt(t.Unix()), big.NewInt(1_000_000_000))
	n.Add(n, big.NewInt(int64(t.Nanosecond())))
	return n.Sign() >= 0 && n.IsInt64()
}

// xID: an ID of n bytes; pID: a decoded ID where an absent field is the all-zero ID.
func xID(b []byte) string { return hex.EncodeToString(b) }
func pID(b []byte, n int) string {
	if len(b) == 0 {
		return strings.Repeat("00", n)
	}
	return hex.EncodeToString(b)
}

// xCount: a non-negative count carried in a uint32 field, clamped at 2^32-1 (documented).
func xCount(n int) string {
	if int64(n) > math.MaxUint32 {
		return strconv.FormatUint(math.MaxUint32, 10)
	}
	return strconv.Itoa(n)
}

// ---------------------------------------------------------------------------- alphabets

type resSym struct {
	Name string
	R    *resource.Resource
}

type scopeSym struct {
	Name string
	S    instrumentation.Scope
}

// resAlphabet: R1, R1' (equal attributes, another object built from permuted input), R2, an
// empty resource and (withNil) no resource at all.
func resAlphabet(withNil bool) []resSym {
	rs := []resSym{
		{"R1", resource.NewWithAttributes("https://example.test/r1", attribute.String("service.name", "a"), attribute.Int("k", 1))},
		{"R1'", resource.NewWithAttributes("https://example.test/r1", attribute.Int("k", 1), attribute.String("service.name", "a"))},
		{"R2", resource.NewSchemaless(attribute.String("service.name", "b"))},
		{"Rempty", resource.Empty()},
	}
	if withNil {
		rs = append(rs, resSym{"Rnil", nil})
	}
	return rs
}

// scopeAlphabet: S1 and one scope per component of the scope identity that differs from S1 in
// exactly that component (S2 version, S3 attributes, S4 schema URL, S5 name), and the empty scope.
func scopeAlphabet() []scopeSym {
	a1, a2 := attribute.NewSet(attribute.Int("a", 1)), attribute.NewSet(attribute.Int("a", 2))
	return []scopeSym{
		{"S1", instrumentation.Scope{Name: "lib", Version: "1", SchemaURL: "https://example.test/s1", Attributes: a1}},
		{"S2", instrumentation.Scope{Name: "lib", Version: "2", SchemaURL: "https://example.test/s1", Attributes: a1}},
		{"S3", instrumentation.Scope{Name: "lib", Version: "1", SchemaURL: "https://example.test/s1", Attributes: a2}},
		{"S4", instrumentation.Scope{Name: "lib", Version: "1", SchemaURL: "https://example.test/s4", Attributes: a1}},
		{"S5", instrumentation.Scope{Name: "lib5", Version: "1", SchemaURL: "https://example.test/s1", Attributes: a1}},
		{"S0", instrumentation.Scope{}},
	}
}

// sixPairs indexes the (resource, scope) pairs used for the longer sequences:
// (R1,S1) (R1',S1) (R1,S2) (R2,S1) (Rempty,S0) (R1,S0).
func sixPairs() [][2]int { return [][2]int{{0, 0}, {1, 0}, {0, 1}, {2, 0}, {3, 5}, {0, 5}} }

// eachSeq calls f for every sequence of length L over [0,n), in lexicographic order; when
// first >= 0 only sequences starting with it.
func eachSeq(n, L, first int, f func([]int) bool) {
	seq := make([]int, L)
	var rec func(i int) bool
	rec = func(i int) bool {
		if i == L {
			return f(seq)
		}
		for v := 0; v < n; v++ {
			if i == 0 && first >= 0 && v != first {
				continue
			}
			seq[i] = v
			if !rec(i + 1) {
				return false
			}
		}
		return true
	}
	if L == 0 {
		if first <= 0 {
			f(seq)
		}
		return
	}
	rec(0)
}

// attrFamily: the eight attribute value types x {typical, empty, extreme}.
func attrFamily() []attribute.KeyValue {
	big64k := strings.Repeat("0123456789abcdef", 4096) // 64 KiB
	return []attribute.KeyValue{
		attribute.Bool("b", true), attribute.Bool("b", false),
		attribute.Int64("i", 42), attribute.Int64("i", 0), attribute.Int64("i", math.MaxInt64), attribute.Int64("i", math.MinInt64),
		attribute.Float64("f", 1.5), attribute.Float64("f", 0), attribute.Float64("f", math.Copysign(0, -1)), attribute.Float64("f", math.Inf(1)), attribute.Float64("f", math.Inf(-1)),
		attribute.Float64("f", math.NaN()), attribute.Float64("f", math.MaxFloat64), attribute.Float64("f", math.SmallestNonzeroFloat64),
		attribute.String("s", "v"), attribute.String("s", ""), attribute.String("s", "Ünï ✓ \x00\n\""), attribute.String("s", big64k),
		attribute.String("", "empty key"),
		attribute.BoolSlice("bs", []bool{true, false}), attribute.BoolSlice("bs", nil),
		attribute.Int64Slice("is", []int64{1, math.MinInt64, math.MaxInt64}), attribute.Int64Slice("is", []int64{}),
		attribute.Float64Slice("fs", []float64{1.5, math.NaN(), math.Inf(-1), math.Copysign(0, -1)}), attribute.Float64Slice("fs", nil),
		attribute.StringSlice("ss", []string{"x", "", "y"}), attribute.StringSlice("ss", nil), attribute.StringSlice("ss", []string{""}),
	}
}

// ---------------------------------------------------------------------------- gRPC vs HTTP

var unsafeName = regexp.MustCompile(`[^A-Za-z0-9_.-]+`)

// peerCmp collects, per enumerated input, the sha256 of the canonical deterministic marshal
// of what this copy of the transform produced. Both copies (units <signal>-http and
// <signal>-grpc, same harness file, same jobs, same enumeration) write their list next to
// the result file; each writes first and looks for the other's list second, so whichever
// finishes last sees both and compares them line by line.
type peerCmp struct {
	r      *enum.R
	signal string
	side   string
	pos    []enum.Pos
	dig    []string
	desc   []string
	rp     struct {
		Section string `json:"section"`
		Index   int64  `json:"index"`
		Peer    string `json:"peer"`
		Side    string `json:"peer_side"`
	}
}

func newPeerCmp(r *enum.R, signal string) *peerCmp {
	p := &peerCmp{r: r, signal: signal, side: os.Getenv("C13_SIDE")}
	if d := r.ReplayData(); d != nil {
		_ = json.Unmarshal(d, &p.rp)
	}
	return p
}

func digest(parts [][]byte) string {
	h := sha256.New()
	for _, p := range parts {
		fmt.Fprintf(h, "%d:", len(p))
		h.Write(p)
	}
	return hex.EncodeToString(h.Sum(nil))
}

func (p *peerCmp) key() string { return "grpc-vs-http|" + p.signal + " payload differs" }

func (p *peerCmp) add(dig string, desc string) {
	pos := p.r.Here()
	if p.r.Replaying() {
		if p.rp.Peer != "" && p.rp.Section == pos.Section && p.rp.Index == pos.Index && p.rp.Peer != dig {
			p.r.Fail(p.key(), desc, p.rp, "the %s copy of the %s transform produced payload sha256 %s, the %s copy %s for the same input", p.side, p.signal, dig, p.rp.Side, p.rp.Peer)
		}
		return
	}
	p.pos = append(p.pos, pos)
	p.dig = append(p.dig, dig)
	p.desc = append(p.desc, desc)
}

func (p *peerCmp) finish() {
	out := os.Getenv("VERIF_OUT")
	if out == "" || p.side == "" || p.r.Replaying() {
		return
	}
	other := map[string]string{"http": "grpc", "grpc": "http"}[p.side]
	base := filepath.Join(filepath.Dir(out), "c13cmp."+p.signal+"."+unsafeName.ReplaceAllString(p.r.Job(), "_"))
	var b strings.Builder
	for i := range p.pos {
		fmt.Fprintf(&b, "%s\t%d\t%s\n", p.pos[i].Section, p.pos[i].Index, p.dig[i])
	}
	tmp := base + "." + p.side + ".tmp"
	if err := os.WriteFile(tmp, []byte(b.String()), 0o644); err != nil {
		p.r.Note("grpc-vs-http: cannot write %s: %v", tmp, err)
		return
	}
	if err := os.Rename(tmp, base+"."+p.side); err != nil {
		p.r.Note("grpc-vs-http: %v", err)
		return
	}
	peer, err := os.ReadFile(base + "." + other)
	if err != nil {
		return // the other copy has not finished this job yet; it will compare
	}
	claim, err := os.OpenFile(base+".claim", os.O_CREATE|os.O_EXCL|os.O_WRONLY, 0o644)
	if err != nil {
		return // the other copy is comparing
	}
	claim.Close()
	theirs := map[string]string{}
	for _, ln := range strings.Split(strings.TrimSpace(string(peer)), "\n") {
		f := strings.Split(ln, "\t")
		if len(f) == 3 {
			theirs[f[0]+"\t"+f[1]] = f[2]
		}
	}
	var n int64
	for i := range p.pos {
		d, ok := theirs[fmt.Sprintf("%s\t%d", p.pos[i].Section, p.pos[i].Index)]
		if !ok {
			continue
		}
		n++
		if d != p.dig[i] {
			rp := p.rp
			rp.Section, rp.Index, rp.Peer, rp.Side = p.pos[i].Section, p.pos[i].Index, d, other
			p.r.Fail(p.key(), p.desc[i], rp, "the %s copy of the %s transform produced payload sha256 %s, the %s copy %s for the same input", p.side, p.signal, p.dig[i], other, d)
		}
	}
	p.r.Count("grpc_http_payloads_compared_"+p.signal, n)
	if int(n) != len(p.pos) || len(theirs) != len(p.pos) {
		p.r.Note("grpc-vs-http %s: %d inputs here, %d in the other copy, %d compared", p.signal, len(p.pos), len(theirs), n)
	}
}
