package otlptracehttp

// C13 (unit wire-otlptracehttp) — what the exporter puts on the wire; see internal/verifc13w.

import (
	"context"
	"fmt"
	"sort"
	"testing"
	"time"

	"google.golang.org/protobuf/proto"

	"go.opentelemetry.io/otel/attribute"
	"go.opentelemetry.io/otel/exporters/otlp/otlptrace"
	"go.opentelemetry.io/otel/exporters/otlp/otlptrace/internal/tracetransform"
	"go.opentelemetry.io/otel/internal/verifc13w"
	"go.opentelemetry.io/otel/sdk/instrumentation"
	"go.opentelemetry.io/otel/sdk/resource"
	tracesdk "go.opentelemetry.io/otel/sdk/trace"
	"go.opentelemetry.io/otel/sdk/trace/tracetest"
	"go.opentelemetry.io/otel/trace"
	coltracepb "go.opentelemetry.io/proto/otlp/collector/trace/v1"
)

type c13wExporter struct {
	e  *otlptrace.Exporter
	bs [][]tracesdk.ReadOnlySpan
}

func (x c13wExporter) Export(ctx context.Context, b int) error { return x.e.ExportSpans(ctx, x.bs[b]) }
func (x c13wExporter) Shutdown(ctx context.Context) error      { return x.e.Shutdown(ctx) }

func c13wBatch(svc string, n int) []tracesdk.ReadOnlySpan {
	t0 := time.Unix(1700000000, 0)
	res := resource.NewSchemaless(attribute.String("service.name", svc))
	var stubs tracetest.SpanStubs
	for i := 0; i < n; i++ {
		stubs = append(stubs, tracetest.SpanStub{
			Name:        fmt.Sprintf("%s-span-%d", svc, i),
			SpanContext: trace.NewSpanContext(trace.SpanContextConfig{TraceID: trace.TraceID{1, byte(len(svc)), byte(i >> 8), byte(i)}, SpanID: trace.SpanID{2, byte(i >> 8), byte(i), 1}, TraceFlags: trace.FlagsSampled}),
			StartTime:   t0, EndTime: t0.Add(time.Duration(i+1) * time.Millisecond),
			Attributes: []attribute.KeyValue{attribute.String("owner", svc), attribute.Int("i", i)},
			Resource:   res, InstrumentationScope: instrumentation.Scope{Name: "scope-of-" + svc},
		})
	}
	return stubs.Snapshots()
}

// c13wMixed: two resources x two scopes in ONE batch (the other batches have one group each).
func c13wMixed() []tracesdk.ReadOnlySpan {
	t0 := time.Unix(1700000000, 0)
	var stubs tracetest.SpanStubs
	i := 0
	for _, svc := range []string{"ra", "rb"} {
		for _, sc := range []string{"s1", "s2"} {
			for k := 0; k < 3; k++ {
				i++
				stubs = append(stubs, tracetest.SpanStub{
					Name:        fmt.Sprintf("%s-%s-%d", svc, sc, k),
					SpanContext: trace.NewSpanContext(trace.SpanContextConfig{TraceID: trace.TraceID{7, byte(i)}, SpanID: trace.SpanID{8, byte(i)}, TraceFlags: trace.FlagsSampled}),
					StartTime:   t0, EndTime: t0.Add(time.Duration(i) * time.Millisecond),
					Attributes: []attribute.KeyValue{attribute.String("owner", svc+"/"+sc)},
					Resource:   resource.NewSchemaless(attribute.String("service.name", svc)), InstrumentationScope: instrumentation.Scope{Name: sc},
				})
			}
		}
	}
	return stubs.Snapshots()
}

// c13wSort puts the groups of a request into one order (the transform groups through a map).
func c13wSort(r *coltracepb.ExportTraceServiceRequest) {
	key := func(m proto.Message) string {
		b, _ := proto.MarshalOptions{Deterministic: true}.Marshal(m)
		return string(b)
	}
	for _, rs := range r.ResourceSpans {
		sort.Slice(rs.ScopeSpans, func(a, b int) bool { return key(rs.ScopeSpans[a].Scope) < key(rs.ScopeSpans[b].Scope) })
	}
	sort.Slice(r.ResourceSpans, func(a, b int) bool { return key(r.ResourceSpans[a].Resource) < key(r.ResourceSpans[b].Resource) })
}

func TestVerifC13Wire(t *testing.T) {
	bs := [][]tracesdk.ReadOnlySpan{c13wBatch("small", 1), c13wMixed(), c13wBatch("large", 1200), c13wBatch("other-exporter", 80)}
	want := make([]*coltracepb.ExportTraceServiceRequest, len(bs))
	for i, b := range bs {
		want[i] = &coltracepb.ExportTraceServiceRequest{ResourceSpans: tracetransform.Spans(b)}
		c13wSort(want[i])
	}
	verifc13w.Run(t, verifc13w.Target{
		Name:    "otlptracehttp",
		Batches: []string{"small (1 span)", "mixed (2 resources x 2 scopes x 3 spans)", "large (1200 spans)", "the second exporter's batch (80 spans)"},
		Check: func(b int, body []byte) string {
			var got coltracepb.ExportTraceServiceRequest
			if err := proto.Unmarshal(body, &got); err != nil {
				return "not an ExportTraceServiceRequest: " + err.Error()
			}
			c13wSort(&got)
			if !proto.Equal(&got, want[b]) {
				n := 0
				for _, rs := range got.ResourceSpans {
					for _, ss := range rs.ScopeSpans {
						n += len(ss.Spans)
					}
				}
				return fmt.Sprintf("decodes to a different request (%d bytes, %d spans; the conversion of the batch has %d bytes)", len(body), n, proto.Size(want[b]))
			}
			return ""
		},
		New: func(gz bool, host string) verifc13w.Exporter {
			comp := NoCompression
			if gz {
				comp = GzipCompression
			}
			cl := NewClient(WithInsecure(), WithEndpoint(host), WithCompression(comp),
				WithRetry(RetryConfig{Enabled: true, InitialInterval: time.Nanosecond, MaxInterval: time.Nanosecond, MaxElapsedTime: time.Minute}))
			cl.(*client).client.Transport = verifc13w.RoundTripper()
			e, err := otlptrace.New(context.Background(), cl)
			if err != nil {
				panic(err)
			}
			return c13wExporter{e: e, bs: bs}
		},
	})
}
