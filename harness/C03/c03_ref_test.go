package propagation_test

// C03 — reference side. Everything in this file is written from the W3C Trace Context
// recommendation (https://www.w3.org/TR/trace-context-1/) and from the property statement,
// byte by byte, without looking at how propagation/trace_context.go or trace/tracestate.go
// do it: a recogniser of the traceparent language, a recogniser of tracestate keys, values
// and lists, and the list model of TraceState edits (newest first, right-most dropped).

import (
	"fmt"
	"strings"
)

// ---------------------------------------------------------------------------------------
// traceparent
//
//	traceparent    = version "-" version-format
//	version        = 2HEXDIGLC                       ; "ff" is forbidden
//	version-format = trace-id "-" parent-id "-" trace-flags      (version 00: nothing else)
//	trace-id       = 32HEXDIGLC  ; not all zero
//	parent-id      = 16HEXDIGLC  ; not all zero
//	trace-flags    = 2HEXDIGLC   ; bit 0 = sampled
//	HEXDIGLC       = DIGIT / "a" / "b" / "c" / "d" / "e" / "f"
//
// A higher version is parsed like version 00 provided the flags are followed by the end of
// the string or by "-".

type tpRef struct {
	ok        bool
	why       string // class of malformation when !ok (used in finding keys)
	tolerated bool   // version 00 followed by exactly one "-": see spec.json, assumptions
	canonical bool   // exactly what Inject must emit: version 00, 55 bytes, flags 00 or 01
	tid       [16]byte
	sid       [8]byte
	sampled   bool
}

func lhexVal(c byte) (byte, bool) {
	switch {
	case c >= '0' && c <= '9':
		return c - '0', true
	case c >= 'a' && c <= 'f':
		return c - 'a' + 10, true
	}
	return 0, false
}

func refTraceparent(h string) tpRef {
	var t tpRef
	if len(h) < 55 {
		t.why = "shorter than 55 bytes"
		return t
	}
	for _, p := range []int{2, 35, 52} {
		if h[p] != '-' {
			t.why = "field delimiter not at offset 2/35/52"
			return t
		}
	}
	for i := 0; i < 55; i++ {
		if i == 2 || i == 35 || i == 52 {
			continue
		}
		c := h[i]
		if _, ok := lhexVal(c); !ok {
			if c >= 'A' && c <= 'F' {
				t.why = "upper-case hex digit"
			} else {
				t.why = "non-hex byte in a field"
			}
			return t
		}
	}
	dec := func(dst []byte, s string) {
		for i := range dst {
			hi, _ := lhexVal(s[2*i])
			lo, _ := lhexVal(s[2*i+1])
			dst[i] = hi<<4 | lo
		}
	}
	var ver, fl [1]byte
	dec(ver[:], h[0:2])
	dec(t.tid[:], h[3:35])
	dec(t.sid[:], h[36:52])
	dec(fl[:], h[53:55])
	if ver[0] == 0xff {
		t.why = "version ff"
		return t
	}
	if ver[0] == 0 {
		switch {
		case len(h) == 55:
		case len(h) == 56 && h[55] == '-':
			t.tolerated = true
		default:
			t.why = "version 00 with trailing data"
			return t
		}
	} else if len(h) > 55 && h[55] != '-' {
		t.why = "future version: flags not followed by '-'"
		return t
	}
	if t.tid == ([16]byte{}) {
		t.why = "all-zero trace-id"
		return t
	}
	if t.sid == ([8]byte{}) {
		t.why = "all-zero parent-id"
		return t
	}
	t.ok = true
	t.sampled = fl[0]&1 == 1
	t.canonical = ver[0] == 0 && len(h) == 55 && fl[0] <= 1
	return t
}

const hexdig = "0123456789abcdef"

func lhex(b []byte) string {
	out := make([]byte, 2*len(b))
	for i, c := range b {
		out[2*i] = hexdig[c>>4]
		out[2*i+1] = hexdig[c&15]
	}
	return string(out)
}

// refInject is the traceparent the property expects for (trace id, span id, sampled).
func refInject(tid [16]byte, sid [8]byte, sampled bool) string {
	f := "00"
	if sampled {
		f = "01"
	}
	return "00-" + lhex(tid[:]) + "-" + lhex(sid[:]) + "-" + f
}

// ---------------------------------------------------------------------------------------
// tracestate
//
//	list        = list-member 0*31( OWS "," OWS list-member )   ; empty members are allowed
//	list-member = key "=" value
//	key         = simple-key / multi-tenant-key
//	simple-key  = lcalpha 0*255( lcalpha / DIGIT / "_" / "-" / "*" / "/" )
//	multi-tenant-key = tenant-id "@" system-id
//	tenant-id   = ( lcalpha / DIGIT ) 0*240( lcalpha / DIGIT / "_" / "-" / "*" / "/" )
//	system-id   = lcalpha 0*13( lcalpha / DIGIT / "_" / "-" / "*" / "/" )
//	value       = 0*255(chr) nblk-chr
//	nblk-chr    = %x21-2B / %x2D-3C / %x3E-7E
//	chr         = %x20 / nblk-chr

type kv struct{ K, V string }

func lcalpha(c byte) bool { return c >= 'a' && c <= 'z' }
func digit(c byte) bool   { return c >= '0' && c <= '9' }
func keyChar(c byte) bool {
	return lcalpha(c) || digit(c) || c == '_' || c == '-' || c == '*' || c == '/'
}

// refKey returns "" for a legal key, otherwise the class of the defect.
func refKey(k string) string {
	if k == "" {
		return "empty key"
	}
	ats := 0
	for i := 0; i < len(k); i++ {
		c := k[i]
		switch {
		case c >= 0x80:
			return "non-ASCII byte in key"
		case c == '@':
			ats++
		case !keyChar(c):
			return "illegal ASCII byte in key"
		}
	}
	if ats > 1 {
		return "more than one '@' in key"
	}
	if ats == 0 {
		if len(k) > 256 {
			return "simple key longer than 256"
		}
		if !lcalpha(k[0]) {
			return "simple key does not start with a-z"
		}
		return ""
	}
	at := strings.IndexByte(k, '@')
	tenant, system := k[:at], k[at+1:]
	switch {
	case tenant == "":
		return "empty tenant-id"
	case len(tenant) > 241:
		return "tenant-id longer than 241"
	case !lcalpha(tenant[0]) && !digit(tenant[0]):
		return "tenant-id does not start with a-z/0-9"
	case system == "":
		return "empty system-id"
	case len(system) > 14:
		return "system-id longer than 14"
	case !lcalpha(system[0]):
		return "system-id does not start with a-z"
	}
	return ""
}

// refValue returns "" for a legal value, otherwise the class of the defect.
func refValue(v string) string {
	if v == "" {
		return "empty value"
	}
	if len(v) > 256 {
		return "value longer than 256"
	}
	for i := 0; i < len(v); i++ {
		c := v[i]
		switch {
		case c >= 0x80:
			return "non-ASCII byte in value"
		case c < 0x20 || c == 0x7f:
			return "control byte in value"
		case c == ',' || c == '=':
			return "',' or '=' in value"
		}
	}
	if v[len(v)-1] == ' ' {
		return "value ends with a space"
	}
	return ""
}

// refMember returns "" when (k, v) is a legal list-member.
func refMember(k, v string) string {
	if w := refKey(k); w != "" {
		return "key: " + w
	}
	if w := refValue(v); w != "" {
		return "value: " + w
	}
	return ""
}

// refList judges an already split member list: legal members, unique keys, at most 32.
func refList(l []kv) string {
	for _, m := range l {
		if w := refMember(m.K, m.V); w != "" {
			return w
		}
	}
	for i := range l {
		for j := 0; j < i; j++ {
			if l[i].K == l[j].K {
				return "duplicate key"
			}
		}
	}
	if len(l) > 32 {
		return "more than 32 members"
	}
	return ""
}

func trimOWS(s string) string {
	for len(s) > 0 && (s[0] == ' ' || s[0] == '\t') {
		s = s[1:]
	}
	for len(s) > 0 && (s[len(s)-1] == ' ' || s[len(s)-1] == '\t') {
		s = s[:len(s)-1]
	}
	return s
}

// refParseTracestate recognises a tracestate header value; why == "" means it conforms.
func refParseTracestate(h string) (list []kv, why string) {
	start := 0
	for i := 0; i <= len(h); i++ {
		if i < len(h) && h[i] != ',' {
			continue
		}
		m := trimOWS(h[start:i])
		start = i + 1
		if m == "" {
			continue
		}
		eq := strings.IndexByte(m, '=')
		if eq < 0 {
			return nil, "list-member without '='"
		}
		list = append(list, kv{m[:eq], m[eq+1:]})
	}
	if w := refList(list); w != "" {
		return nil, w
	}
	return list, ""
}

func joinList(l []kv) string {
	var b strings.Builder
	for i, m := range l {
		if i > 0 {
			b.WriteByte(',')
		}
		b.WriteString(m.K)
		b.WriteByte('=')
		b.WriteString(m.V)
	}
	return b.String()
}

func sameList(a, b []kv) bool {
	if len(a) != len(b) {
		return false
	}
	for i := range a {
		if a[i] != b[i] {
			return false
		}
	}
	return true
}

// ---------------------------------------------------------------------------------------
// edit model: an ordered list, newest first

// modelInsert: an illegal member is an error and leaves the list as it was; otherwise the
// member goes to the front, an older member with the same key disappears, and if that makes
// 33 the right-most one is dropped.
func modelInsert(l []kv, k, v string) (out []kv, illegal string) {
	if w := refMember(k, v); w != "" {
		return l, w
	}
	out = append(out, kv{k, v})
	for _, m := range l {
		if m.K != k {
			out = append(out, m)
		}
	}
	if len(out) > 32 {
		out = out[:32]
	}
	return out, ""
}

func modelDelete(l []kv, k string) []kv {
	out := make([]kv, 0, len(l))
	for _, m := range l {
		if m.K != k {
			out = append(out, m)
		}
	}
	return out
}

func hasKey(l []kv, k string) bool {
	for _, m := range l {
		if m.K == k {
			return true
		}
	}
	return false
}

// ---------------------------------------------------------------------------------------
// writing cases out (headers may hold arbitrary bytes: always Go-quoted, long runs folded)

func show(s string) string {
	if len(s) <= 96 {
		return fmt.Sprintf("%+q", s)
	}
	var b strings.Builder
	for i := 0; i < len(s); {
		j := i
		for j < len(s) && s[j] == s[i] {
			j++
		}
		if j-i >= 8 {
			fmt.Fprintf(&b, "%+q*%d ", s[i:i+1], j-i)
		} else {
			// a stretch without long runs
			k := j
			for k < len(s) {
				e := k
				for e < len(s) && s[e] == s[k] {
					e++
				}
				if e-k >= 8 {
					break
				}
				k = e
			}
			seg := s[i:k]
			if len(seg) > 120 {
				fmt.Fprintf(&b, "%+q..(%d bytes)..%+q ", seg[:40], len(seg)-60, seg[len(seg)-20:])
			} else {
				fmt.Fprintf(&b, "%+q ", seg)
			}
			j = k
		}
		i = j
	}
	return fmt.Sprintf("%s(len %d)", b.String(), len(s))
}

func showList(l []kv) string {
	if len(l) <= 4 {
		return show(joinList(l))
	}
	return fmt.Sprintf("%d members: %s ,.., %s", len(l), show(joinList(l[:2])), show(joinList(l[len(l)-2:])))
}
