package propagation_test

// C03 — W3C trace-context propagation round-trips and never accepts malformed headers.
//
// Bounded-exhaustive enumeration of the REAL propagation.TraceContext{} and trace.TraceState
// through their public API against the reference recognisers / list model of c03_ref_test.go:
//
//	rt-*   (a) Inject -> Extract round trip over a product of span contexts
//	tp-*   (b) arbitrary bytes as traceparent: substitution / insertion / deletion / truncation
//	           closures of valid and nearly valid seeds, and all short words
//	ts-*   (c) arbitrary bytes as tracestate: all short words over the scanner's character
//	           classes, every byte value / every code point at every grammatical position,
//	           boundary lengths, member counts, duplicates; each next to good traceparents
//	edit-* (d) breadth-first search of Insert / Delete histories against the list model

import (
	"context"
	"fmt"
	"net/http"
	"os"
	"strings"
	"testing"

	"go.opentelemetry.io/otel/propagation"
	"go.opentelemetry.io/otel/trace"
	"verif/mc/enum"
)

type ctxKey struct{}

type c03 struct {
	r    *enum.R
	prop propagation.TraceContext
	base context.Context // carries an older, local span context: "untouched" means this very value comes back
	good []goodTP
	tick int
	// coarse: sections whose exact answers would overflow the reporter's distinct-outcome table
	// register the class of the answer instead (accepted / sampled / which id changed)
	coarse bool
	recv   []receiver
}

type goodTP struct {
	h   string
	ref tpRef
}

const (
	seedTID = "0123456789abcdef0fedcba987654321"
	seedSID = "b7ad6b7169203331"
)

func newC03(r *enum.R) *c03 {
	c := &c03{r: r}
	stale := trace.NewSpanContext(trace.SpanContextConfig{
		TraceID: trace.TraceID{0xde, 0xad, 0xbe, 0xef, 1, 2, 3, 4, 5, 6, 7, 8, 9, 10, 11, 12},
		SpanID:  trace.SpanID{0xfe, 0xed, 1, 2, 3, 4, 5, 6}, TraceFlags: trace.FlagsSampled,
	})
	c.base = trace.ContextWithSpanContext(context.WithValue(context.Background(), ctxKey{}, "base"), stale)
	for _, h := range []string{
		"00-" + seedTID + "-" + seedSID + "-00",
		"00-" + seedTID + "-" + seedSID + "-01",
		"01-" + seedTID + "-" + seedSID + "-01-ext",
	} {
		g := goodTP{h, refTraceparent(h)}
		if !g.ref.ok {
			panic("harness: good traceparent rejected by the reference: " + h)
		}
		c.good = append(c.good, g)
	}
	return c
}

// expired polls the wall budget every 1024 cases.
func (c *c03) expired() bool {
	c.tick++
	if c.tick&1023 == 0 {
		return c.r.Expired()
	}
	return false
}

// ---------------------------------------------------------------------------------------
// calling the real code (always under recover)

type exRes struct {
	panicked any
	accepted bool // the returned context is not the one passed in
	sc       trace.SpanContext
	out      context.Context
}

func (c *c03) extract(tp string, hasTS bool, ts string) (res exRes) {
	return c.extractInto(c.base, tp, hasTS, ts)
}

// extractInto extracts into a given context (the standard one carries a stale, unrelated span).
func (c *c03) extractInto(base context.Context, tp string, hasTS bool, ts string) (res exRes) {
	carrier := propagation.MapCarrier{"traceparent": tp}
	if hasTS {
		carrier["tracestate"] = ts
	}
	defer func() {
		if p := recover(); p != nil {
			res = exRes{panicked: p}
		}
	}()
	c.r.Eval()
	out := c.prop.Extract(base, carrier)
	res.out = out
	if out == base {
		return res
	}
	res.accepted = true
	res.sc = trace.SpanContextFromContext(out)
	// the result is the caller's context with a span context added: values (and with them deadlines,
	// cancellation) of the context passed in are still there
	if v := base.Value(ctxKey{}); v != nil && out.Value(ctxKey{}) != v {
		c.r.FailHere("extract-loses-the-callers-context", map[string]any{"traceparent": show(tp)}, "Extract returned a context in which the caller's value %v is %v", v, out.Value(ctxKey{}))
	}
	return res
}

type injRes struct {
	panicked     any
	tp, ts       string
	hasTP, hasTS bool
	extra        []string
}

func (c *c03) inject(ctx context.Context) (res injRes) {
	carrier := propagation.MapCarrier{}
	defer func() {
		if p := recover(); p != nil {
			res = injRes{panicked: p}
		}
	}()
	c.r.Eval()
	c.prop.Inject(ctx, carrier)
	res.tp, res.hasTP = carrier["traceparent"]
	res.ts, res.hasTS = carrier["tracestate"]
	for _, k := range carrier.Keys() {
		if k != "traceparent" && k != "tracestate" {
			res.extra = append(res.extra, k)
		}
	}
	return res
}

func (c *c03) parse(s string) (ts trace.TraceState, err error, panicked any) {
	defer func() {
		if p := recover(); p != nil {
			panicked = p
		}
	}()
	c.r.Eval()
	ts, err = trace.ParseTraceState(s)
	return
}

func (c *c03) insert(ts trace.TraceState, k, v string) (out trace.TraceState, err error, panicked any) {
	defer func() {
		if p := recover(); p != nil {
			panicked = p
		}
	}()
	out, err = ts.Insert(k, v)
	return
}

func (c *c03) delete(ts trace.TraceState, k string) (out trace.TraceState, panicked any) {
	defer func() {
		if p := recover(); p != nil {
			panicked = p
		}
	}()
	out = ts.Delete(k)
	return
}

func walk(ts trace.TraceState) []kv {
	var l []kv
	ts.Walk(func(k, v string) bool { l = append(l, kv{k, v}); return true })
	return l
}

// ---------------------------------------------------------------------------------------
// oracles shared by the sections

// stateInvariants: what the statement demands of every TraceState the package hands out.
func (c *c03) stateInvariants(want bool, where string, ts trace.TraceState, desc func() any) (members []kv, ok bool) {
	r := c.r
	members = walk(ts)
	ok = true
	fail := func(key, f string, a ...any) {
		ok = false
		if want {
			r.FailHere(key, desc(), f, a...)
		}
	}
	if w := refList(members); w != "" {
		fail("tracestate-nonconforming|"+w, "%s yields a TraceState that violates the W3C grammar (%s): %s", where, w, showList(members))
		return members, false
	}
	s := ts.String()
	if s != joinList(members) || ts.Len() != len(members) {
		fail("observers-disagree|"+where, "String()=%s Len()=%d but Walk sees %s", show(s), ts.Len(), showList(members))
		return members, false
	}
	for _, m := range members {
		if g := ts.Get(m.K); g != m.V {
			fail("observers-disagree|"+where, "Get(%s)=%s but Walk sees %s", show(m.K), show(g), show(m.V))
			return members, false
		}
	}
	if l, w := refParseTracestate(s); w != "" || !sameList(l, members) {
		fail("string-nonconforming|"+where, "String() %s is not a W3C tracestate for the same members (%s)", show(s), w)
		return members, false
	}
	ts2, err, p := c.parse(s)
	if p != nil {
		fail("panic|ParseTraceState", "ParseTraceState(%s) panicked: %v", show(s), p)
		return members, false
	}
	if err != nil || !sameList(walk(ts2), members) {
		fail("string-does-not-reparse|"+where, "ParseTraceState(String()) of %s gives %s, err %v", show(s), showList(walk(ts2)), err)
	}
	return members, ok
}

// reinjected checks the headers Inject writes for an extracted context.
func (c *c03) reinjected(out context.Context, sc trace.SpanContext, desc func() any) {
	r := c.r
	inj := c.inject(out)
	if inj.panicked != nil {
		r.FailHere("panic|Inject", desc(), "Inject panicked on an extracted context: %v", inj.panicked)
		return
	}
	want := refInject(sc.TraceID(), sc.SpanID(), sc.IsSampled())
	if !inj.hasTP || inj.tp != want || !refTraceparent(inj.tp).canonical || len(inj.extra) > 0 {
		r.FailHere("reinject-traceparent-nonconforming", desc(), "re-injected traceparent %s (present %v, other keys %v), expected %s", show(inj.tp), inj.hasTP, inj.extra, want)
	}
	if inj.hasTS {
		if _, w := refParseTracestate(inj.ts); w != "" {
			r.FailHere("tracestate-nonconforming|"+w, desc(), "re-injected tracestate %s violates the W3C grammar: %s", show(inj.ts), w)
		}
	}
}

// ---------------------------------------------------------------------------------------
// (b) one traceparent header

func (c *c03) oneTraceparent(h string, desc func() any) {
	r := c.r
	ref := refTraceparent(h)
	res := c.extract(h, false, "")
	switch {
	case res.panicked != nil:
		r.FailHere("panic|Extract", desc(), "Extract panicked on traceparent %s: %v", show(h), res.panicked)
		return
	case !res.accepted:
		r.OutcomeHash(0)
		if ref.canonical {
			r.FailHere("traceparent-rejects-canonical", desc(), "traceparent %s is exactly what Inject emits for a valid span context, but Extract left the context untouched", show(h))
		}
		return
	}
	sc := res.sc
	tid, sid := sc.TraceID(), sc.SpanID()
	if c.coarse {
		r.Outcome(fmt.Sprint("accepted", sc.IsSampled(), tid.String() == seedTID, sid.String() == seedSID))
	} else {
		var o [26]byte
		copy(o[:], tid[:])
		copy(o[16:], sid[:])
		o[24] = byte(sc.TraceFlags())
		o[25] = 1
		r.Outcome(string(o[:]))
		r.Sample(desc)
	}
	if !sc.IsValid() {
		r.FailHere("extract-yields-invalid-context", desc(), "Extract replaced the context by an invalid span context (%s / %s) for traceparent %s", tid, sid, show(h))
		return
	}
	if !ref.ok {
		r.FailHere("traceparent-accepted-malformed|"+ref.why, desc(), "traceparent %s is malformed (%s) but was accepted as %s / %s sampled=%v", show(h), ref.why, tid, sid, sc.IsSampled())
	} else if [16]byte(tid) != ref.tid || [8]byte(sid) != ref.sid || sc.IsSampled() != ref.sampled {
		r.FailHere("extract-wrong-fields", desc(), "traceparent %s extracted as %s / %s sampled=%v, reference decode %s / %s sampled=%v", show(h), tid, sid, sc.IsSampled(), lhex(ref.tid[:]), lhex(ref.sid[:]), ref.sampled)
	}
	c.reinjected(res.out, sc, desc)
}

var tpAlphabet = []byte{'5', 'b', 'B', 'q', '-', ' ', 0x00, 0x7f, 0x80, 0xff, 0xc5, 0xa1, '0', 'f'}

func tpSeeds() []struct{ name, h string } {
	z32, z16 := strings.Repeat("0", 32), strings.Repeat("0", 16)
	return []struct{ name, h string }{
		{"v00 flags 00", "00-" + seedTID + "-" + seedSID + "-00"},
		{"v00 flags 01", "00-" + seedTID + "-" + seedSID + "-01"},
		{"v01 flags 01", "01-" + seedTID + "-" + seedSID + "-01"},
		{"vfe flags 00 with suffix", "fe-" + seedTID + "-" + seedSID + "-00-x1"},
		{"vff", "ff-" + seedTID + "-" + seedSID + "-01"},
		{"v00 zero ids", "00-" + z32 + "-" + z16 + "-01"},
		{"v00 trailing dash", "00-" + seedTID + "-" + seedSID + "-01-"},
	}
}

func (c *c03) traceparentSeed(si int, job string) {
	r := c.r
	seed := tpSeeds()[si]
	n := len(seed.h)
	r.Bound("traceparent_seeds", len(tpSeeds()))
	r.Bound("traceparent_class_alphabet", len(tpAlphabet))
	r.Bound("traceparent_multi_substitution_depth", 2)
	mk := func(how string, h string) func() any {
		return func() any {
			return map[string]any{"traceparent": show(h), "seed": seed.name, "derivation": how}
		}
	}
	// the seed itself, then the complete single-byte substitution closure
	r.Section(job + "/sub1")
	if r.Want() {
		c.oneTraceparent(seed.h, mk("seed", seed.h))
	}
	buf := []byte(seed.h)
	for i := 0; i < n; i++ {
		for v := 0; v < 256; v++ {
			if !r.Want() {
				continue
			}
			buf[i] = byte(v)
			h := string(buf)
			c.oneTraceparent(h, mk(fmt.Sprintf("byte %d := 0x%02x", i, v), h))
		}
		buf[i] = seed.h[i]
	}
	// every deletion, every truncation, every single-byte insertion
	r.Section(job + "/del-trunc-ins")
	for i := 0; i < n; i++ {
		if r.Want() {
			h := seed.h[:i] + seed.h[i+1:]
			c.oneTraceparent(h, mk(fmt.Sprintf("byte %d deleted", i), h))
		}
	}
	for i := 0; i <= n; i++ {
		if r.Want() {
			h := seed.h[:i]
			c.oneTraceparent(h, mk(fmt.Sprintf("truncated to %d bytes", i), h))
		}
	}
	for i := 0; i <= n; i++ {
		for v := 0; v < 256; v++ {
			if !r.Want() {
				continue
			}
			h := seed.h[:i] + string([]byte{byte(v)}) + seed.h[i:]
			c.oneTraceparent(h, mk(fmt.Sprintf("0x%02x inserted at %d", v, i), h))
		}
	}
	// double substitution over the class alphabet at every pair of positions
	r.Section(job + "/sub2")
	for i := 0; i < n && !r.Expired(); i++ {
		for j := i + 1; j < n; j++ {
			for _, a := range tpAlphabet {
				for _, b := range tpAlphabet {
					if !r.Want() {
						continue
					}
					buf[i], buf[j] = a, b
					h := string(buf)
					c.oneTraceparent(h, mk(fmt.Sprintf("byte %d := 0x%02x, byte %d := 0x%02x", i, a, j, b), h))
				}
			}
			buf[j] = seed.h[j]
		}
		buf[i] = seed.h[i]
	}
}

// triple substitution (thorough tier): positions i<j<k with i%parts == part.
func (c *c03) traceparentTriple(si, part, parts int, job string) {
	r := c.r
	seed := tpSeeds()[si]
	n := len(seed.h)
	r.Bound("traceparent_multi_substitution_depth", 3)
	c.coarse = true
	buf := []byte(seed.h)
	r.Section(job)
	for i := part; i < n; i += parts {
		for j := i + 1; j < n; j++ {
			if r.Expired() {
				return
			}
			for k := j + 1; k < n; k++ {
				for _, a := range tpAlphabet {
					for _, b := range tpAlphabet {
						for _, d := range tpAlphabet {
							if !r.Want() {
								continue
							}
							buf[i], buf[j], buf[k] = a, b, d
							h := string(buf)
							c.oneTraceparent(h, func() any {
								return map[string]any{"traceparent": show(h), "seed": seed.name,
									"derivation": fmt.Sprintf("bytes %d,%d,%d := 0x%02x,0x%02x,0x%02x", i, j, k, a, b, d)}
							})
						}
					}
				}
				buf[k] = seed.h[k]
			}
			buf[j] = seed.h[j]
		}
		buf[i] = seed.h[i]
	}
}

// words enumerates every word of length exactly L over al that starts with the symbols in
// prefix (shortest first is the caller's loop over L).
func words(al []byte, prefix []byte, L int, f func(w []byte) bool) bool {
	if len(prefix) > L {
		return true
	}
	w := make([]byte, L)
	copy(w, prefix)
	var rec func(p int) bool
	rec = func(p int) bool {
		if p == L {
			return f(w)
		}
		for _, s := range al {
			w[p] = s
			if !rec(p + 1) {
				return false
			}
		}
		return true
	}
	return rec(len(prefix))
}

func (c *c03) traceparentShort(job string) {
	r := c.r
	maxLen := enum.Pick(r, 4, 6)
	r.Bound("traceparent_short_word_len", maxLen)
	r.Section(job)
	for L := 0; L <= maxLen; L++ {
		ok := words(tpAlphabet, nil, L, func(w []byte) bool {
			if c.expired() {
				return false
			}
			if !r.Want() {
				return true
			}
			h := string(w)
			d := func() any { return map[string]any{"traceparent": show(h), "derivation": "short word"} }
			c.oneTraceparent(h, d)
			r.Sample(d)
			return true
		})
		if !ok {
			return
		}
	}
	// the absent header
	if r.Want() {
		carrier := propagation.MapCarrier{}
		r.Eval()
		if out := c.prop.Extract(c.base, carrier); out != c.base {
			r.FailHere("reject-changes-context", "no traceparent header at all", "Extract replaced the context although no traceparent was presented")
		}
	}
}

// ---------------------------------------------------------------------------------------
// (c) one tracestate header

func (c *c03) oneTracestate(in string, desc func() any) {
	r := c.r
	ts, err, p := c.parse(in)
	if p != nil {
		r.FailHere("panic|ParseTraceState", desc(), "ParseTraceState(%s) panicked: %v", show(in), p)
		return
	}
	verdict := "unparsable"
	if err == nil {
		verdict = "parsable"
		c.stateInvariants(true, "ParseTraceState", ts, desc)
		if c.coarse {
			r.Outcome(fmt.Sprint("ok:", ts.Len(), len(ts.String())))
		} else {
			r.Outcome("ok:" + ts.String())
		}
	} else {
		r.OutcomeHash(1)
	}
	// next to every good traceparent
	for _, g := range c.good {
		res := c.extract(g.h, true, in)
		if res.panicked != nil {
			r.FailHere("panic|Extract", desc(), "Extract panicked on tracestate %s: %v", show(in), res.panicked)
			return
		}
		if !res.accepted || !res.sc.IsValid() {
			r.FailHere("tracestate-invalidates-traceparent|"+verdict+" tracestate", desc(), "good traceparent %s next to tracestate %s: context left untouched / invalid", g.h, show(in))
			continue
		}
		sc := res.sc
		if [16]byte(sc.TraceID()) != g.ref.tid || [8]byte(sc.SpanID()) != g.ref.sid || sc.IsSampled() != g.ref.sampled {
			r.FailHere("tracestate-changes-traceparent-fields|"+verdict+" tracestate", desc(), "good traceparent %s next to tracestate %s extracted as %s / %s sampled=%v", g.h, show(in), sc.TraceID(), sc.SpanID(), sc.IsSampled())
		}
		c.reinjected(res.out, sc, desc)
	}
}

var tsAlphabet = []byte{'a', '1', 'A', '=', ',', ' ', '\t', '@', '_', 0xc5, 0xa1, 0x80, '~'}

// tracestateMembers: headers built from whole list-members (the byte words are too short to hold
// two well-formed members with white space between them): every list of <= 4 members over keys
// {a, b}, values {1, 2}, optional white space before / after the member, and the empty member.
// What is judged is what oneTracestate judges: a parsable header yields a conforming state (unique
// keys in particular), and no tracestate invalidates a good traceparent.
var tsMemberTokens = []string{"a=1", "a=2", "b=1", " a=1", "a=2 ", "\ta=1", " b=2\t", "", " ", "a@t=1", " a@t=2"}

func (c *c03) tracestateMembers(job string) {
	r := c.r
	maxN := enum.Pick(r, 4, 5)
	r.Bound("tracestate_member_tokens", tsMemberTokens)
	r.Bound("tracestate_member_list_len", maxN)
	r.Section(job)
	idx := make([]int, 0, maxN)
	var rec func() bool
	rec = func() bool {
		if len(idx) > 0 {
			if c.expired() {
				return false
			}
			if r.Want() {
				parts := make([]string, len(idx))
				for i, t := range idx {
					parts[i] = tsMemberTokens[t]
				}
				in := strings.Join(parts, ",")
				d := func() any { return map[string]any{"tracestate": show(in), "members": parts} }
				c.oneTracestate(in, d)
				r.Sample(d)
			}
		}
		if len(idx) == maxN {
			return true
		}
		for t := range tsMemberTokens {
			idx = append(idx, t)
			ok := rec()
			idx = idx[:len(idx)-1]
			if !ok {
				return false
			}
		}
		return true
	}
	rec()
}

// carriers: Inject into a carrier that already holds the headers of an earlier Inject (a request
// object reused for a retry, a second hop): every sequence of <= 3 injections of valid span
// contexts into ONE carrier, for both carrier types of the package, then Extract: the result is
// the context injected last. (All contexts carry a tracestate: a carrier has no delete, so a stale
// tracestate under a context without one is outside what Inject can do.)
func (c *c03) carriers(job string) {
	r := c.r
	mk := func(t, s byte, sampled bool, ts string) trace.SpanContext {
		st, err := trace.ParseTraceState(ts)
		if err != nil {
			panic(err)
		}
		fl := trace.TraceFlags(0)
		if sampled {
			fl = trace.FlagsSampled
		}
		return trace.NewSpanContext(trace.SpanContextConfig{TraceID: trace.TraceID{t, 1}, SpanID: trace.SpanID{s, 2}, TraceFlags: fl, TraceState: st})
	}
	scs := []trace.SpanContext{mk(1, 1, true, "a=1"), mk(2, 2, false, "b=2,a=1"), mk(1, 3, true, "a=3"), mk(4, 4, false, "c=4")}
	r.Bound("carrier_span_contexts", len(scs))
	r.Bound("carrier_max_injections", 3)
	r.Bound("carrier_types", []string{"MapCarrier", "HeaderCarrier"})
	r.Section(job)
	for _, kind := range []string{"MapCarrier", "HeaderCarrier"} {
		for L := 1; L <= 3; L++ {
			seq := make([]int, L)
			for {
				if r.Want() {
					var carrier propagation.TextMapCarrier = propagation.MapCarrier{}
					if kind == "HeaderCarrier" {
						carrier = propagation.HeaderCarrier(http.Header{})
					}
					for _, i := range seq {
						r.Eval()
						c.prop.Inject(trace.ContextWithSpanContext(context.Background(), scs[i]), carrier)
					}
					r.Eval()
					got := trace.SpanContextFromContext(c.prop.Extract(context.Background(), carrier))
					want := scs[seq[L-1]]
					d := map[string]any{"carrier": kind, "injected_in_order": seq, "headers": map[string]string{"traceparent": carrier.Get("traceparent"), "tracestate": carrier.Get("tracestate")}}
					if got.TraceID() != want.TraceID() || got.SpanID() != want.SpanID() || got.IsSampled() != want.IsSampled() || got.TraceState().String() != want.TraceState().String() || !got.IsRemote() {
						cls := "first injection"
						if L > 1 {
							cls = "carrier already held the headers of an earlier injection"
						}
						r.FailHere("roundtrip-carrier|"+kind+"|"+cls, d, "injected last: %s/%s sampled=%v tracestate=%q; extracted: %s/%s sampled=%v tracestate=%q remote=%v",
							want.TraceID(), want.SpanID(), want.IsSampled(), want.TraceState().String(), got.TraceID(), got.SpanID(), got.IsSampled(), got.TraceState().String(), got.IsRemote())
					}
					r.Outcome(fmt.Sprint(kind, seq[L-1], L))
				}
				i := L - 1
				for i >= 0 {
					seq[i]++
					if seq[i] < len(scs) {
						break
					}
					seq[i] = 0
					i--
				}
				if i < 0 {
					break
				}
			}
		}
	}
}

func (c *c03) tracestateWords(first int, job string) {
	r := c.r
	maxLen := enum.Pick(r, 5, 7)
	r.Bound("tracestate_word_alphabet", len(tsAlphabet))
	r.Bound("tracestate_word_len", maxLen)
	r.Bound("good_traceparents_per_tracestate", len(c.good))
	r.Section(job)
	if first == 0 && r.Want() {
		c.oneTracestate("", func() any { return map[string]any{"tracestate": `""`} })
	}
	for L := 1; L <= maxLen; L++ {
		ok := words(tsAlphabet, []byte{tsAlphabet[first]}, L, func(w []byte) bool {
			if c.expired() {
				return false
			}
			if !r.Want() {
				return true
			}
			in := string(w)
			d := func() any { return map[string]any{"tracestate": show(in)} }
			c.oneTracestate(in, d)
			r.Sample(d)
			return true
		})
		if !ok {
			return
		}
	}
}

// fill builds a legal run of n key characters / value characters that uses every class.
func fillKey(n int) string {
	const cyc = "bz09_-*/"
	var b strings.Builder
	for i := 0; i < n; i++ {
		b.WriteByte(cyc[i%len(cyc)])
	}
	return b.String()
}

func fillVal(n int) string {
	var b strings.Builder
	for i := 0; b.Len() < n; i++ {
		ch := byte(0x21 + i%(0x7e-0x21+1))
		if ch == ',' || ch == '=' {
			continue
		}
		b.WriteByte(ch)
	}
	return b.String()
}

func nMembers(n int) []kv {
	l := make([]kv, n)
	for i := range l {
		l[i] = kv{fmt.Sprintf("k%02d", i), fmt.Sprintf("v%d", i)}
	}
	return l
}

func (c *c03) tracestateBounds(job string) {
	r := c.r
	one := func(in, how string) {
		if !r.Want() {
			return
		}
		d := func() any { return map[string]any{"tracestate": show(in), "construction": how} }
		c.oneTracestate(in, d)
		r.Sample(d)
	}
	// every byte value at every grammatical position of a member
	r.Section(job + "/bytes")
	type slot struct{ name, pre, post string }
	slots := []slot{
		{"first byte of a simple key", "", "b=1"},
		{"later byte of a simple key", "a", "b=1"},
		{"last byte of a simple key", "ab", "=1"},
		{"first byte of a tenant-id", "", "b@c=1"},
		{"later byte of a tenant-id", "a", "b@c=1"},
		{"first byte of a system-id", "a@", "c=1"},
		{"later byte of a system-id", "a@b", "c=1"},
		{"first byte of a value", "a=", "xy"},
		{"inner byte of a value", "a=x", "y"},
		{"last byte of a value", "a=xy", ""},
		{"only byte of a value", "a=", ""},
		{"byte between two members", "a=1", "b=2"},
		{"first byte of the second member", "a=1,", "b=2"},
		{"last byte of the first member", "a=1", ",b=2"},
	}
	r.Bound("tracestate_byte_slots", len(slots))
	for _, s := range slots {
		for v := 0; v < 256; v++ {
			one(s.pre+string([]byte{byte(v)})+s.post, fmt.Sprintf("0x%02x as %s", v, s.name))
		}
	}
	// boundary lengths
	r.Section(job + "/lengths")
	for _, n := range []int{1, 2, 255, 256, 257, 258, 300} {
		one("a"+fillKey(n-1)+"=1", fmt.Sprintf("simple key of %d bytes", n))
		one("a="+fillVal(n), fmt.Sprintf("value of %d bytes", n))
		one("a="+fillVal(n-1)+" ", fmt.Sprintf("value of %d bytes followed by a space", n-1))
		one("a= "+fillVal(n-1), fmt.Sprintf("value of %d bytes starting with a space", n))
		one(strings.Repeat(" ", n)+"a=1", fmt.Sprintf("%d spaces before the key", n))
	}
	for _, n := range []int{1, 2, 240, 241, 242, 243, 256} {
		for _, m := range []int{1, 2, 13, 14, 15, 16} {
			one("1"+fillKey(n-1)+"@s"+fillKey(m-1)+"=1", fmt.Sprintf("tenant-id of %d bytes @ system-id of %d bytes", n, m))
		}
	}
	// the same positions and lengths as arguments of Insert (ParseTraceState trims, Insert does not)
	r.Section(job + "/insert-bytes")
	mslots := []mslot{
		{"first byte of a simple key", true, "", "b", "1"},
		{"later byte of a simple key", true, "a", "b", "1"},
		{"last byte of a simple key", true, "ab", "", "1"},
		{"only byte of a simple key", true, "", "", "1"},
		{"first byte of a tenant-id", true, "", "b@c", "1"},
		{"later byte of a tenant-id", true, "a", "b@c", "1"},
		{"first byte of a system-id", true, "a@", "c", "1"},
		{"later byte of a system-id", true, "a@b", "c", "1"},
		{"first byte of a value", false, "", "xy", "a"},
		{"inner byte of a value", false, "x", "y", "a"},
		{"last byte of a value", false, "xy", "", "a"},
		{"only byte of a value", false, "", "", "a"},
	}
	r.Bound("insert_byte_slots", len(mslots))
	r.Bound("insert_receivers", []int{0, 2, 32})
	ins := func(k, v, how string) {
		if !r.Want() {
			return
		}
		d := func() any { return map[string]any{"construction": how} }
		c.oneInsert(k, v, d)
		r.Sample(func() any { return map[string]any{"insert": editOp{true, k, v}.String(), "construction": how} })
	}
	for _, s := range mslots {
		for x := 0; x < 256; x++ {
			k, v := s.member(string([]byte{byte(x)}))
			ins(k, v, fmt.Sprintf("0x%02x as %s", x, s.name))
		}
	}
	r.Section(job + "/insert-lengths")
	for _, n := range []int{0, 1, 2, 255, 256, 257, 258, 300} {
		if n > 0 {
			ins("a"+fillKey(n-1), "1", fmt.Sprintf("simple key of %d bytes", n))
			ins("a", fillVal(n-1)+" ", fmt.Sprintf("value of %d bytes followed by a space", n-1))
			ins("a", " "+fillVal(n-1), fmt.Sprintf("value of %d bytes starting with a space", n))
			ins("a", fillVal(n-1)+"\t", fmt.Sprintf("value of %d bytes followed by a tab", n-1))
			ins(strings.Repeat(" ", n)+"a", "1", fmt.Sprintf("%d spaces before the key", n))
		}
		ins("a", fillVal(n), fmt.Sprintf("value of %d bytes", n))
	}
	for _, n := range []int{0, 1, 2, 240, 241, 242, 243, 256} {
		for _, m := range []int{0, 1, 2, 13, 14, 15, 16} {
			t, sys := "", ""
			if n > 0 {
				t = "1" + fillKey(n-1)
			}
			if m > 0 {
				sys = "s" + fillKey(m-1)
			}
			ins(t+"@"+sys, "1", fmt.Sprintf("tenant-id of %d bytes @ system-id of %d bytes", n, m))
		}
	}
	// member counts, with and without empty members
	r.Section(job + "/counts")
	for _, n := range []int{1, 2, 31, 32, 33, 34, 64} {
		l := nMembers(n)
		one(joinList(l), fmt.Sprintf("%d distinct members", n))
		one(","+strings.ReplaceAll(joinList(l), ",", ",,")+",", fmt.Sprintf("%d distinct members with empty members around each", n))
		one(strings.ReplaceAll(joinList(l), ",", " ,\t"), fmt.Sprintf("%d distinct members with OWS around the commas", n))
	}
	// a duplicate at every pair of positions
	r.Section(job + "/duplicates")
	for _, n := range []int{2, 3, 32} {
		for i := 0; i < n; i++ {
			for j := i + 1; j < n; j++ {
				l := nMembers(n)
				l[j].K = l[i].K
				one(joinList(l), fmt.Sprintf("%d members, member %d repeats the key of member %d", n, j, i))
			}
		}
	}
}

// every Unicode code point >= U+0080 at each position class of a member.
func (c *c03) tracestateRunes(part, parts int, job string) {
	r := c.r
	maxRune := enum.Pick(r, rune(0xffff), rune(0x10ffff))
	r.Bound("tracestate_max_code_point", fmt.Sprintf("U+%04X", maxRune))
	slots := []mslot{
		{"inside a simple key", true, "a", "", "1"},
		{"first in a simple key", true, "", "a", "1"},
		{"inside a tenant-id", true, "1", "@s", "1"},
		{"inside a system-id", true, "t@s", "", "1"},
		{"inside a value", false, "x", "y", "a"},
	}
	r.Bound("tracestate_rune_slots", len(slots))
	c.coarse = true
	r.Section(job)
	for cp := rune(0x80) + rune(part); cp <= maxRune; cp += rune(parts) {
		if cp >= 0xd800 && cp <= 0xdfff {
			continue
		}
		if c.expired() {
			return
		}
		for _, s := range slots {
			if !r.Want() {
				continue
			}
			k, v := s.member(string(cp))
			in := k + "=" + v
			d := func() any {
				return map[string]any{"tracestate": show(in), "construction": fmt.Sprintf("U+%04X %s", cp, s.name)}
			}
			c.oneTracestate(in, d)
			c.oneInsert(k, v, d)
			r.Sample(d)
		}
	}
}

// ---------------------------------------------------------------------------------------
// one Insert argument pair, presented to three receivers

type mslot struct {
	name      string
	inKey     bool
	pre, post string
	other     string // the value when the slot is in the key, the key when it is in the value
}

func (s mslot) member(x string) (k, v string) {
	if s.inKey {
		return s.pre + x + s.post, s.other
	}
	return s.other, s.pre + x + s.post
}

type receiver struct {
	real  trace.TraceState
	model []kv
	str   string
}

func (c *c03) receivers() []receiver {
	if c.recv != nil {
		return c.recv
	}
	for _, l := range [][]kv{nil, {{"b", "2"}, {"c", "3"}}, nMembers(32)} {
		d := func() any { return map[string]any{"receiver": showList(l)} }
		ts, ok := c.build(l, d)
		if !ok || !sameList(walk(ts), l) {
			c.r.FailHere("edit-mismatch|building a list by Insert|"+fmt.Sprint(len(l), " members"), d(), "inserting the members last-to-first gives %s", showList(walk(ts)))
			continue
		}
		c.recv = append(c.recv, receiver{ts, l, ts.String()})
	}
	return c.recv
}

func opClass(o editOp, recv []kv) string {
	full := "list not full"
	if len(recv) == 32 {
		full = "list full (32)"
	}
	switch {
	case o.ins && hasKey(recv, o.k):
		return "insert existing key|" + full
	case o.ins:
		return "insert new key|" + full
	case hasKey(recv, o.k):
		return "delete present key|" + full
	}
	return "delete absent key|" + full
}

// judgeEdit compares the answer of one real edit with the list model. ok: real and model agree
// and the result may be explored further.
func (c *c03) judgeEdit(want bool, o editOp, model []kv, gotList []kv, err error, d func() any) (wantList []kv, ok bool) {
	fail := func(key, f string, a ...any) {
		if want {
			c.r.FailHere(key, d(), f, a...)
		}
	}
	illegal := ""
	if o.ins {
		wantList, illegal = modelInsert(model, o.k, o.v)
	} else {
		wantList = modelDelete(model, o.k)
	}
	switch {
	case illegal != "" && err == nil:
		fail("tracestate-nonconforming|"+illegal, "%s was accepted although the member is illegal (%s); result %s", o, illegal, showList(gotList))
	case illegal != "" && !sameList(gotList, model):
		fail("edit-error-changes-state", "%s failed (%v) but returned %s instead of the receiver's members", o, err, showList(gotList))
	case illegal == "" && err != nil:
		fail("edit-insert-rejects-legal|"+legalClass(o.k, o.v), "%s of a legal member failed: %v", o, err)
	case !sameList(gotList, wantList):
		fail("edit-mismatch|"+opClass(o, model), "%s on %s gives %s, the list model (newest first, right-most dropped) gives %s", o, showList(model), showList(gotList), showList(wantList))
	default:
		return wantList, true
	}
	return wantList, false
}

func (c *c03) oneInsert(k, v string, desc func() any) {
	r := c.r
	o := editOp{true, k, v}
	for _, rc := range c.receivers() {
		d := func() any {
			m := desc().(map[string]any)
			m["receiver"] = showList(rc.model)
			m["op"] = o.String()
			return m
		}
		r.Eval()
		got, err, p := c.insert(rc.real, k, v)
		if p != nil {
			r.FailHere("panic|Insert", d(), "%s panicked: %v", o, p)
			continue
		}
		if s := rc.real.String(); s != rc.str {
			r.FailHere("edit-mutates-receiver|"+opClass(o, rc.model), d(), "%s changed its receiver from %s to %s", o, show(rc.str), show(s))
			c.recv = nil // rebuilt for the next case
			return
		}
		gotList := walk(got)
		if c.coarse {
			r.Outcome(fmt.Sprint("insert:", err != nil, len(gotList)))
		} else {
			r.Outcome(fmt.Sprint("insert:", err != nil) + joinList(gotList))
		}
		if _, ok := c.judgeEdit(true, o, rc.model, gotList, err, d); ok && err == nil {
			c.stateInvariants(true, "Insert", got, d)
		}
	}
}

// ---------------------------------------------------------------------------------------
// (a) round trip

func legalClass(k, v string) string {
	s := "simple key"
	max := len(k) == 256
	if at := strings.IndexByte(k, '@'); at >= 0 {
		s = "multi-tenant key"
		max = at == 241 || len(k)-at-1 == 14
	}
	if max {
		s += ", maximal key length"
	}
	if len(v) == 256 {
		s += ", maximal value length"
	}
	return s
}

// build makes the real TraceState for a model list through Insert, last member first.
func (c *c03) build(l []kv, desc func() any) (trace.TraceState, bool) {
	var ts trace.TraceState
	for i := len(l) - 1; i >= 0; i-- {
		var err error
		var p any
		c.r.Eval()
		ts, err, p = c.insert(ts, l[i].K, l[i].V)
		if p != nil {
			c.r.FailHere("panic|Insert", desc(), "Insert(%s,%s) panicked: %v", show(l[i].K), show(l[i].V), p)
			return ts, false
		}
		if err != nil {
			c.r.FailHere("edit-insert-rejects-legal|"+legalClass(l[i].K, l[i].V), desc(), "Insert(%s,%s) of a legal member failed: %v", show(l[i].K), show(l[i].V), err)
			return ts, false
		}
	}
	return ts, true
}

type tsCase struct {
	l     []kv
	class string
}

func roundTripLists() []tsCase {
	keys := []string{"a", "z9_-*/x", "0t@s", "k" + fillKey(255), "1" + fillKey(240) + "@s" + fillKey(13)}
	vals := []string{"1", " x y", " " + fillVal(92), fillVal(256)}
	cls := func(l []kv) string {
		for _, m := range l {
			if len(m.K) > 200 || len(m.V) > 200 {
				return "1-2 members incl. maximal lengths"
			}
		}
		return "1-2 short members"
	}
	out := []tsCase{{nil, "empty"}}
	for _, k := range keys {
		for _, v := range vals {
			l := []kv{{k, v}}
			out = append(out, tsCase{l, cls(l)})
		}
	}
	for _, k1 := range keys {
		for _, k2 := range keys {
			if k1 == k2 {
				continue
			}
			for _, v1 := range vals {
				for _, v2 := range vals {
					l := []kv{{k1, v1}, {k2, v2}}
					out = append(out, tsCase{l, cls(l)})
				}
			}
		}
	}
	out = append(out, tsCase{nMembers(31), "31 members"}, tsCase{nMembers(32), "32 members"})
	big := nMembers(32)
	big[0] = kv{keys[3], vals[3]}
	big[31] = kv{keys[4], vals[2]}
	out = append(out, tsCase{big, "32 members incl. maximal lengths"})
	return out
}

var rtTraceIDs = []trace.TraceID{
	{0xff, 0xff, 0xff, 0xff, 0xff, 0xff, 0xff, 0xff, 0xff, 0xff, 0xff, 0xff, 0xff, 0xff, 0xff, 0xff},
	{15: 0x01},
	{0: 0x80},
	{0x01, 0x23, 0x45, 0x67, 0x89, 0xab, 0xcd, 0xef, 0xfe, 0xdc, 0xba, 0x98, 0x76, 0x54, 0x32, 0x10},
	{8: 0xff, 9: 0xff, 10: 0xff, 11: 0xff, 12: 0xff, 13: 0xff, 14: 0xff, 15: 0xff},
	{0x0a, 0xa0, 0x0a, 0xa0, 0x0a, 0xa0, 0x0a, 0xa0, 0x0a, 0xa0, 0x0a, 0xa0, 0x0a, 0xa0, 0x0a, 0xa0},
}

var rtSpanIDs = []trace.SpanID{
	{0xff, 0xff, 0xff, 0xff, 0xff, 0xff, 0xff, 0xff},
	{7: 0x01},
	{0: 0x80},
	{0x01, 0x23, 0x45, 0x67, 0x89, 0xab, 0xcd, 0xef},
	{0x00, 0xf0, 0x67, 0xaa, 0x0b, 0xa9, 0x02, 0xb7},
}

var rtFlags = []trace.TraceFlags{0x00, 0x01, 0x02, 0x03, 0xff}

func (c *c03) roundTrip(part, parts int, job string) {
	r := c.r
	lists := roundTripLists()
	r.Bound("roundtrip_trace_ids", len(rtTraceIDs))
	r.Bound("roundtrip_span_ids", len(rtSpanIDs))
	r.Bound("roundtrip_flags", len(rtFlags))
	r.Bound("roundtrip_tracestates", len(lists))
	r.Section(job)
	for ti := part; ti < len(rtTraceIDs); ti += parts {
		c.roundTripTID(rtTraceIDs[ti], lists)
	}
}

func (c *c03) roundTripTID(tid trace.TraceID, lists []tsCase) {
	r := c.r
	for _, lc := range lists {
		for _, sid := range rtSpanIDs {
			for _, fl := range rtFlags {
				for _, remote := range []bool{false, true} {
					if c.expired() {
						return
					}
					if !r.Want() {
						continue
					}
					d := func() any {
						return map[string]any{"trace_id": tid.String(), "span_id": sid.String(), "flags": fmt.Sprintf("%02x", byte(fl)),
							"remote": remote, "tracestate": showList(lc.l)}
					}
					if len(lc.l) > 0 && fl == 0x03 {
						r.Sample(d)
					}
					ts, ok := c.build(lc.l, d)
					if !ok {
						continue
					}
					if got := walk(ts); !sameList(got, lc.l) {
						r.FailHere("edit-mismatch|building a list by Insert|"+lc.class, d(), "inserting the members last-to-first gives %s", showList(got))
						continue
					}
					sc := trace.NewSpanContext(trace.SpanContextConfig{TraceID: tid, SpanID: sid, TraceFlags: fl, TraceState: ts, Remote: remote})
					inj := c.inject(trace.ContextWithSpanContext(context.Background(), sc))
					if inj.panicked != nil {
						r.FailHere("panic|Inject", d(), "Inject panicked: %v", inj.panicked)
						continue
					}
					sampled := fl&1 == 1
					if want := refInject(tid, sid, sampled); !inj.hasTP || inj.tp != want || len(inj.extra) > 0 {
						r.FailHere("inject-traceparent-nonconforming", d(), "Inject wrote traceparent %s (present %v, other keys %v), expected %s", show(inj.tp), inj.hasTP, inj.extra, want)
					}
					if !inj.hasTS && len(lc.l) > 0 {
						r.FailHere("inject-tracestate-missing|"+lc.class, d(), "no tracestate header was written for %d members", len(lc.l))
					} else if inj.hasTS {
						if l, w := refParseTracestate(inj.ts); w != "" {
							r.FailHere("tracestate-nonconforming|"+w, d(), "injected tracestate %s violates the W3C grammar: %s", show(inj.ts), w)
						} else if !sameList(l, lc.l) {
							r.FailHere("inject-tracestate-differs|"+lc.class, d(), "injected tracestate %s does not list the members of the span context", show(inj.ts))
						}
					}
					res := c.extract(inj.tp, inj.hasTS, inj.ts)
					switch {
					case res.panicked != nil:
						r.FailHere("panic|Extract", d(), "Extract panicked on injected headers: %v", res.panicked)
						continue
					case !res.accepted:
						r.OutcomeHash(0)
						r.FailHere("roundtrip-rejected|"+lc.class, d(), "Extract left the context untouched for the injected headers traceparent=%s tracestate=%s", show(inj.tp), show(inj.ts))
						continue
					}
					got := res.sc
					r.Outcome(got.TraceID().String() + got.SpanID().String() + fmt.Sprint(got.IsSampled(), got.IsRemote()) + got.TraceState().String())
					if got.TraceID() != tid {
						r.FailHere("roundtrip-trace-id", d(), "trace id %s came back as %s", tid, got.TraceID())
					}
					if got.SpanID() != sid {
						r.FailHere("roundtrip-span-id", d(), "span id %s came back as %s", sid, got.SpanID())
					}
					if got.IsSampled() != sampled {
						r.FailHere("roundtrip-sampled", d(), "flags %02x came back sampled=%v", byte(fl), got.IsSampled())
					}
					if !got.IsRemote() {
						r.FailHere("roundtrip-not-remote", d(), "the extracted span context is not remote")
					}
					if back := walk(got.TraceState()); !sameList(back, lc.l) {
						r.FailHere("roundtrip-tracestate|"+lc.class, d(), "tracestate %s came back as %s", showList(lc.l), showList(back))
					}
					// What Extract returns is a function of the carrier, not of what the context held before:
					// (1) into the very context the headers were injected from (it names the same span, as a
					// local or remote one), (2) into the context of the first extraction after the sender
					// flipped the sampled flag and dropped the tracestate.
					if again := c.extractInto(trace.ContextWithSpanContext(context.Background(), sc), inj.tp, inj.hasTS, inj.ts); again.panicked == nil {
						g2 := trace.SpanContextFromContext(again.out)
						if !g2.Equal(got) {
							r.FailHere("extract-depends-on-prior-context|same span already in the context", d(), "extracting into the context the headers were injected from gives %+v, into another context %+v", g2, got)
						}
					}
					flipped := refInject(tid, sid, !sampled)
					if again := c.extractInto(res.out, flipped, false, ""); again.panicked == nil {
						g3 := trace.SpanContextFromContext(again.out)
						if g3.TraceID() != tid || g3.SpanID() != sid || g3.IsSampled() == sampled || !g3.IsRemote() || g3.TraceState().Len() != 0 {
							r.FailHere("extract-depends-on-prior-context|second extraction with other flags and tracestate", d(), "after a first extraction, extracting traceparent=%s (no tracestate) gives sampled=%v remote=%v tracestate=%q", flipped, g3.IsSampled(), g3.IsRemote(), g3.TraceState().String())
						}
					}
				}
			}
		}
	}
}

// ---------------------------------------------------------------------------------------
// (d) edits: breadth-first search over Insert / Delete histories

type editOp struct {
	ins  bool
	k, v string
}

func (o editOp) String() string {
	if o.ins {
		return fmt.Sprintf("Insert(%s,%s)", show(o.k), show(o.v))
	}
	return fmt.Sprintf("Delete(%s)", show(o.k))
}

func editOps() []editOp {
	valid := []string{"k00", "k15", "k30", "k31", "n1", "0t@s"}
	var ops []editOp
	for _, k := range valid {
		ops = append(ops, editOp{true, k, "1"}, editOp{true, k, "x y"})
	}
	// a member longer than 128 characters (the W3C text lets a vendor drop such entries FIRST when it
	// has to shorten a header; the list-level rule of the statement is unconditional: an overflow
	// drops the right-most member, whatever its size)
	ops = append(ops, editOp{true, "k15", strings.Repeat("v", 150)}, editOp{true, "n1", strings.Repeat("w", 150)})
	for _, k := range []string{"", "A", "aš"} { // empty, upper case, a + U+0161 (bytes c5 a1)
		ops = append(ops, editOp{true, k, "1"})
	}
	for _, v := range []string{"", "x=y", "x "} {
		ops = append(ops, editOp{true, "n1", v})
	}
	for _, k := range append(valid, "", "A", "aš") {
		ops = append(ops, editOp{false, k, ""})
	}
	return ops
}

func (c *c03) edits(initN int, job string) {
	r := c.r
	ops := editOps()
	maxDepth := enum.Pick(r, 4, 6)
	if initN == 0 && r.Thorough() {
		maxDepth = 16 // from the empty list the graph over this alphabet is finite: run to the fixpoint
	}
	r.Bound("edit_ops", len(ops))
	r.Bound(fmt.Sprintf("edit_depth_from_%d_members", initN), maxDepth)
	r.Bound("edit_initial_members", []int{0, 31, 32})
	initModel := nMembers(initN)
	r.Section(job + "/init")
	r.Want()
	initDesc := func() any { return map[string]any{"initial": showList(initModel)} }
	initReal, ok := c.build(initModel, initDesc)
	if !ok {
		return
	}
	if m, ok := c.stateInvariants(true, "Insert", initReal, initDesc); !ok || !sameList(m, initModel) {
		if ok {
			r.FailHere("edit-mismatch|building a list by Insert|"+fmt.Sprint(initN, " members"), initDesc(), "inserting the members last-to-first gives %s", showList(m))
		}
		return
	}
	initStr := initReal.String()

	// compact canonical state: one byte per member (ids in first-seen order: deterministic)
	ids := map[kv]byte{}
	encode := func(l []kv) string {
		b := make([]byte, len(l))
		for i, m := range l {
			id, ok := ids[m]
			if !ok {
				id = byte(len(ids))
				ids[m] = id
			}
			b[i] = id
		}
		return string(b)
	}
	histDesc := func(hist []byte, o *editOp, recv []kv) func() any {
		return func() any {
			var hs []string
			for _, i := range hist {
				hs = append(hs, ops[i].String())
			}
			m := map[string]any{"initial": showList(initModel), "history": hs, "receiver": showList(recv)}
			if o != nil {
				m["op"] = o.String()
			}
			return m
		}
	}
	r.Section(job)
	r.State(encode(initModel))
	frontier := [][]byte{{}}
	depth := 0
	for ; depth < maxDepth && len(frontier) > 0; depth++ {
		var next [][]byte
		for _, hist := range frontier {
			if r.Expired() {
				return
			}
			// rebuild the receiver by replaying its (shortest) history on the initial object
			recv, model := initReal, initModel
			for _, i := range hist {
				if o := ops[i]; o.ins {
					recv, _, _ = c.insert(recv, o.k, o.v)
					model, _ = modelInsert(model, o.k, o.v)
				} else {
					recv, _ = c.delete(recv, o.k)
					model = modelDelete(model, o.k)
				}
			}
			recvStr := recv.String()
			for oi := range ops {
				o := ops[oi]
				want := r.Want()
				r.Transition()
				r.Eval()
				d := histDesc(hist, &o, model)
				fail := func(key, f string, a ...any) {
					if want {
						r.FailHere(key, d(), f, a...)
					}
				}
				var got trace.TraceState
				var err error
				var p any
				if o.ins {
					got, err, p = c.insert(recv, o.k, o.v)
				} else {
					got, p = c.delete(recv, o.k)
				}
				if p != nil {
					fail("panic|"+map[bool]string{true: "Insert", false: "Delete"}[o.ins], "%s panicked: %v", o, p)
					continue
				}
				if s := recv.String(); s != recvStr {
					fail("edit-mutates-receiver|"+opClass(o, model), "%s changed its receiver from %s to %s", o, show(recvStr), show(s))
					recv = trace.TraceState{} // cannot go on with this receiver
					break
				}
				gotList := walk(got)
				if err != nil {
					r.Outcome("error")
				} else {
					r.Outcome("ok" + encode(gotList))
				}
				wantList, agree := c.judgeEdit(want, o, model, gotList, err, d)
				if !agree {
					continue // real and model have parted: not expanded
				}
				if !r.State(encode(wantList)) {
					continue
				}
				nh := append(append(make([]byte, 0, len(hist)+1), hist...), byte(oi))
				nd := histDesc(nh, nil, wantList)
				r.Sample(nd)
				if _, ok := c.stateInvariants(want, map[bool]string{true: "Insert", false: "Delete"}[o.ins], got, nd); ok {
					next = append(next, nh)
				}
			}
		}
		if s := initReal.String(); s != initStr {
			r.FailHere("edit-mutates-receiver|initial list", initDesc(), "after the edits of depth %d the initial TraceState reads %s", depth+1, show(s))
			return
		}
		frontier = next
	}
	if len(frontier) == 0 {
		r.Note("edit graph from %d members is closed: every reachable state was expanded, the last new state appeared at depth %d", initN, depth-1)
		r.Bound(fmt.Sprintf("edit_graph_from_%d_members_closed_at_depth", initN), depth-1)
	}
}

// ---------------------------------------------------------------------------------------

func TestVerifC03(t *testing.T) {
	thorough := os.Getenv("VERIF_TIER") == "thorough"
	var jobs []string
	const rtParts = 2
	for i := 0; i < rtParts; i++ {
		jobs = append(jobs, fmt.Sprintf("rt-%d", i))
	}
	for i := range tpSeeds() {
		jobs = append(jobs, fmt.Sprintf("tp-seed%d", i))
	}
	jobs = append(jobs, "tp-short")
	for i := range tsAlphabet {
		jobs = append(jobs, fmt.Sprintf("ts-words-%d", i))
	}
	jobs = append(jobs, "ts-bounds", "ts-members", "carriers")
	const runeParts, tripleParts = 4, 2
	for i := 0; i < runeParts; i++ {
		jobs = append(jobs, fmt.Sprintf("ts-runes-%d", i))
	}
	jobs = append(jobs, "edit-0", "edit-31", "edit-32")
	if thorough {
		for i := range tpSeeds() {
			for p := 0; p < tripleParts; p++ {
				jobs = append(jobs, fmt.Sprintf("tp3-seed%d-%d", i, p))
			}
		}
	}
	jobs = append(jobs, "composite")
	enum.Jobs(jobs, func(job string) {
		r := enum.Start("C03", "tracecontext")
		defer r.Finish()
		c := newC03(r)
		var a, b int
		switch {
		case scan(job, "rt-%d", &a):
			c.roundTrip(a, rtParts, job)
		case scan(job, "tp-seed%d", &a):
			c.traceparentSeed(a, job)
		case job == "tp-short":
			c.traceparentShort(job)
		case scan(job, "ts-words-%d", &a):
			c.tracestateWords(a, job)
		case job == "ts-bounds":
			c.tracestateBounds(job)
		case job == "ts-members":
			c.tracestateMembers(job)
		case job == "carriers":
			c.carriers(job)
		case job == "composite":
			c.composite(job)
		case scan(job, "ts-runes-%d", &a):
			c.tracestateRunes(a, runeParts, job)
		case scan(job, "edit-%d", &a):
			c.edits(a, job)
		case scan(job, "tp3-seed%d-%d", &a, &b):
			c.traceparentTriple(a, b, tripleParts, job)
		default:
			panic("unknown job " + job)
		}
	})
}

// composite: (1) span contexts that are not valid are not injected -- the carrier, empty or already
// holding headers, stays as it was; (2) the trace-context propagator inside a composite propagator
// next to the baggage propagator, in both orders, with and without a baggage header in the carrier:
// the span context comes out as it went in, and Fields() names the headers Inject writes.
func (c *c03) composite(job string) {
	r := c.r
	r.Section(job)
	tid, _ := trace.TraceIDFromHex(seedTID)
	sid, _ := trace.SpanIDFromHex(seedSID)
	ts, _ := trace.ParseTraceState("k1=v1,k2=v2")
	invalid := []trace.SpanContext{
		trace.NewSpanContext(trace.SpanContextConfig{SpanID: sid, TraceFlags: trace.FlagsSampled}),
		trace.NewSpanContext(trace.SpanContextConfig{TraceID: tid, TraceFlags: trace.FlagsSampled}),
		trace.NewSpanContext(trace.SpanContextConfig{TraceState: ts}),
		{},
	}
	for i, sc := range invalid {
		for _, pre := range []bool{false, true} {
			if !r.Want() {
				continue
			}
			r.Eval()
			car := propagation.MapCarrier{}
			if pre {
				car["traceparent"], car["tracestate"], car["other"] = "00-"+seedTID+"-"+seedSID+"-01", "a=b", "x"
			}
			before := fmt.Sprint(car)
			func() {
				defer func() {
					if p := recover(); p != nil {
						r.FailHere("panic|Inject of an invalid span context", map[string]any{"invalid_context": i}, "panic: %v", p)
					}
				}()
				c.prop.Inject(trace.ContextWithSpanContext(context.Background(), sc), car)
			}()
			if after := fmt.Sprint(car); after != before {
				r.FailHere("inject-of-an-invalid-span-context-writes-headers", map[string]any{"invalid_context": i, "carrier_before": before}, "injecting an invalid span context (zero trace or span id) changed the carrier to %s", after)
			}
			r.Outcome(fmt.Sprint("invalid", i, pre))
		}
	}
	valid := trace.NewSpanContext(trace.SpanContextConfig{TraceID: tid, SpanID: sid, TraceFlags: trace.FlagsSampled, TraceState: ts})
	for order := 0; order < 2; order++ {
		for _, withBag := range []bool{false, true} {
			if !r.Want() {
				continue
			}
			r.Eval()
			var p propagation.TextMapPropagator = propagation.NewCompositeTextMapPropagator(propagation.TraceContext{}, propagation.Baggage{})
			if order == 1 {
				p = propagation.NewCompositeTextMapPropagator(propagation.Baggage{}, propagation.TraceContext{})
			}
			cas := map[string]any{"order": []string{"TraceContext,Baggage", "Baggage,TraceContext"}[order], "baggage_header_present": withBag}
			car := propagation.MapCarrier{}
			if withBag {
				car["baggage"] = "user=alice"
			}
			p.Inject(trace.ContextWithSpanContext(context.Background(), valid), car)
			if withBag {
				car["baggage"] = "user=alice" // what an upstream hop sent along
			}
			got := trace.SpanContextFromContext(p.Extract(context.Background(), car))
			if got.TraceID() != valid.TraceID() || got.SpanID() != valid.SpanID() || got.IsSampled() != valid.IsSampled() || got.TraceState().String() != valid.TraceState().String() || !got.IsRemote() {
				r.FailHere("roundtrip|through a composite propagator", cas, "extracted %s/%s sampled=%v tracestate=%q remote=%v from carrier %v", got.TraceID(), got.SpanID(), got.IsSampled(), got.TraceState().String(), got.IsRemote(), car)
			}
			fields := map[string]bool{}
			for _, f := range p.Fields() {
				fields[f] = true
			}
			if !fields["traceparent"] || !fields["tracestate"] {
				r.FailHere("fields|composite propagator", cas, "Fields() = %v lacks traceparent / tracestate", p.Fields())
			}
			r.Outcome(fmt.Sprint("composite", order, withBag))
		}
	}
}

func scan(s, format string, a ...any) bool {
	n, err := fmt.Sscanf(s, format, a...)
	return err == nil && n == len(a) && fmt.Sprintf(format, deref(a)...) == s
}

func deref(a []any) []any {
	out := make([]any, len(a))
	for i, p := range a {
		out[i] = *(p.(*int))
	}
	return out
}
