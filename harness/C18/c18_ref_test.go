package prometheus

// C18 — reference model. Written from the property statement, the exporter's documented
// naming rules (doc comments of WithoutUnits / WithoutCounterSuffixes / WithNamespace /
// WithoutScopeInfo / WithoutTargetInfo / WithResourceAsConstantLabels, the comment on
// getAttrs) and the OpenTelemetry "Prometheus and OpenMetrics compatibility" rules they
// refer to. Nothing in this file calls into the exporter.

import (
	"fmt"
	"math"
	"sort"
	"strconv"
	"strings"
	"unicode/utf8"

	"go.opentelemetry.io/otel/attribute"
	"go.opentelemetry.io/otel/sdk/metric/metricdata"
)

// refUnitWords is the documented OTel-unit -> Prometheus-unit-word table, restricted to
// the units of the alphabet. Units without an entry ("" and "unknown") add no suffix.
var refUnitWords = map[string]string{
	"s":  "seconds",
	"ms": "milliseconds",
	"By": "bytes",
	"1":  "ratio",
	"%":  "percent",
	// the rest of the documented table (job "units"; the name enumeration uses the five above)
	"d": "days", "h": "hours", "min": "minutes", "us": "microseconds", "ns": "nanoseconds",
	"KiBy": "kibibytes", "MiBy": "mebibytes", "GiBy": "gibibytes", "TiBy": "tibibytes",
	"KBy": "kilobytes", "MBy": "megabytes", "GBy": "gigabytes", "TBy": "terabytes",
	"m": "meters", "V": "volts", "A": "amperes", "J": "joules", "W": "watts", "g": "grams", "Cel": "celsius", "Hz": "hertz",
}

func refIsAlnum(b byte) bool {
	return (b >= 'a' && b <= 'z') || (b >= 'A' && b <= 'Z') || (b >= '0' && b <= '9')
}

// refDelim: a byte that separates words of a name (everything that is not a letter or a
// digit; in the alphabet: '_', '.', '-', '/').
func refDelim(b byte) bool { return !refIsAlnum(b) && b != ':' }

// refSanitize is the legacy-scheme translation: every character outside the legal class
// becomes '_' (metric names: [a-zA-Z_:][a-zA-Z0-9_:]*, label names: [a-zA-Z_][a-zA-Z0-9_]*).
func refSanitize(s string, label bool) string {
	var b strings.Builder
	for i, r := range s {
		ok := (r >= 'a' && r <= 'z') || (r >= 'A' && r <= 'Z') || r == '_' || (r == ':' && !label) || (r >= '0' && r <= '9' && i > 0)
		if ok {
			b.WriteRune(r)
		} else {
			b.WriteByte('_')
		}
	}
	return b.String()
}

// refLegalMetricName / refLegalLabelName: legality under the active validation scheme.
func refLegalMetricName(s string, legacy bool) bool {
	if s == "" {
		return false
	}
	if !legacy {
		return utf8.ValidString(s)
	}
	return refSanitize(s, false) == s
}

func refLegalLabelName(s string, legacy bool) bool {
	if s == "" || strings.HasPrefix(s, "__") {
		return false
	}
	if !legacy {
		return utf8.ValidString(s)
	}
	return refSanitize(s, true) == s
}

type refNaming struct {
	counter   bool // monotonic sum: exposed as a Prometheus counter
	noUnits   bool // WithoutUnits
	noSuffix  bool // WithoutCounterSuffixes
	namespace string
	legacy    bool
}

// refCarries reports whether name already ends with word as its last word.
func refCarries(name, word string) bool {
	if name == word {
		return true
	}
	return strings.HasSuffix(name, word) && refDelim(name[len(name)-len(word)-1])
}

// refNames returns the family names the property admits for an instrument: the (sanitised)
// instrument name, prefixed with the namespace, ending with the unit word and then "total"
// for counters, each joined by '_' and neither repeated when the instrument name already
// ends with it. Exactly one name, except for a counter whose whole name is the word
// "total": the statement does not say whether that name "carries" the suffix, so both
// readings are admitted (see assumptions).
func refNames(instrument, unit string, n refNaming) []string {
	base := instrument
	if n.legacy {
		base = refSanitize(base, false)
	}
	word := ""
	if !n.noUnits {
		word = refUnitWords[unit]
	}
	addTotal := n.counter && !n.noSuffix
	build := func(stem string, lead bool) string {
		name := stem
		if word != "" && !(stem != "" && refCarries(stem, word)) {
			if name != "" || lead {
				name += "_"
			}
			name += word
		}
		if addTotal {
			if name != "" || lead {
				name += "_"
			}
			name += "total"
		}
		if n.namespace != "" {
			name = n.namespace + "_" + name
		}
		return name
	}
	if !addTotal {
		return []string{build(base, false)}
	}
	if base == "total" {
		// whole name is the suffix word: stem kept ("total_total"), stem empty ("total"),
		// stem empty with the joining underscore kept ("_total")
		return []string{build("total", false), build("", false), build("", true)}
	}
	if refCarries(base, "total") {
		// the name already carries the counter suffix: it moves behind the unit word
		return []string{build(base[:len(base)-len("total")-1], false)}
	}
	return []string{build(base, false)}
}

// refEmit: text form of an attribute value (strings as they are, integers in decimal,
// booleans true/false) — the value types of the alphabet.
func refEmit(v attribute.Value) string {
	switch v.Type() {
	case attribute.STRING:
		return v.AsString()
	case attribute.INT64:
		return strconv.FormatInt(v.AsInt64(), 10)
	case attribute.BOOL:
		if v.AsBool() {
			return "true"
		}
		return "false"
	}
	panic("value type outside the alphabet: " + v.Type().String())
}

// refLabels maps attributes to Prometheus labels. UTF-8 scheme: keys unchanged. Legacy
// scheme: keys sanitised; keys that collide are merged into one label whose value is the
// sorted list of the colliding values joined with ';' (as the comment on getAttrs documents).
func refLabels(kvs []attribute.KeyValue, legacy bool) map[string]string {
	out := map[string]string{}
	if !legacy {
		for _, kv := range kvs {
			out[string(kv.Key)] = refEmit(kv.Value)
		}
		return out
	}
	group := map[string][]string{}
	for _, kv := range kvs {
		k := refSanitize(string(kv.Key), true)
		group[k] = append(group[k], refEmit(kv.Value))
	}
	for k, vs := range group {
		sort.Strings(vs)
		out[k] = strings.Join(vs, ";")
	}
	return out
}

func refLabelString(m map[string]string) string {
	ks := make([]string, 0, len(m))
	for k := range m {
		ks = append(ks, k)
	}
	sort.Strings(ks)
	var b strings.Builder
	for _, k := range ks {
		b.WriteString(strconv.Quote(k))
		b.WriteByte('=')
		b.WriteString(strconv.Quote(m[k]))
		b.WriteByte(',')
	}
	return b.String()
}

// refValue is the canonical content of one exposed series.
type refValue struct {
	typ     string  // counter | gauge | histogram | native-histogram
	value   float64 // counter / gauge
	count   uint64
	sum     float64
	buckets string // histogram: "bound:cumulative ..."; native: "schema=.. zt=.. zc=.. +{i:c ..} -{i:c ..}"
}

func fstr(f float64) string { return strconv.FormatFloat(f, 'g', -1, 64) }

func refCumulative(bounds []float64, counts []uint64) string {
	var b strings.Builder
	cum := uint64(0)
	for i, ub := range bounds {
		cum += counts[i]
		b.WriteString(fstr(ub))
		b.WriteByte(':')
		b.WriteString(strconv.FormatUint(cum, 10))
		b.WriteByte(' ')
	}
	return b.String()
}

// refNative: Prometheus native-histogram bucket i covers (base^(i-1), base^i], the OTel
// exponential bucket i covers (base^i, base^(i+1)]: Prometheus index = OTel index + 1.
// Prometheus native histograms only have schemas up to 8: a data point at a finer OTel
// scale s can only be exposed at schema 8, where OTel bucket i has become bucket
// floor(i / 2^(s-8)) and the counts of merged buckets add up. Empty buckets carry no
// information and are left out.
func refNative(scale int32, zeroThreshold float64, zeroCount uint64, posOff int32, pos []uint64, negOff int32, neg []uint64) string {
	shift := uint(0)
	if scale > 8 {
		shift = uint(scale - 8)
		scale = 8
	}
	side := func(off int32, cs []uint64) string {
		merged := map[int]uint64{}
		for i, c := range cs {
			if c != 0 {
				merged[((int(off)+i)>>shift)+1] += c // >> on a negative int rounds towards -Inf
			}
		}
		idx := make([]int, 0, len(merged))
		for i := range merged {
			idx = append(idx, i)
		}
		sort.Ints(idx)
		var b strings.Builder
		for _, i := range idx {
			fmt.Fprintf(&b, "%d:%d ", i, merged[i])
		}
		return b.String()
	}
	return fmt.Sprintf("schema=%d zt=%s zc=%d +{%s} -{%s}", scale, fstr(zeroThreshold), zeroCount, side(posOff, pos), side(negOff, neg))
}

type refPoint struct {
	attrs []attribute.KeyValue
	val   refValue
}

// refPoints turns the SDK's aggregated view of one instrument (what a ManualReader on the
// same MeterProvider collected) into the expected series contents.
func refPoints(m metricdata.Metrics) (pts []refPoint, monotonic bool, err error) {
	sumTyp := func(mono bool) string {
		if mono {
			return "counter"
		}
		return "gauge"
	}
	switch d := m.Data.(type) {
	case metricdata.Sum[int64]:
		if d.Temporality != metricdata.CumulativeTemporality {
			return nil, false, fmt.Errorf("reference reader is not cumulative")
		}
		for _, dp := range d.DataPoints {
			pts = append(pts, refPoint{dp.Attributes.ToSlice(), refValue{typ: sumTyp(d.IsMonotonic), value: float64(dp.Value)}})
		}
		return pts, d.IsMonotonic, nil
	case metricdata.Sum[float64]:
		if d.Temporality != metricdata.CumulativeTemporality {
			return nil, false, fmt.Errorf("reference reader is not cumulative")
		}
		for _, dp := range d.DataPoints {
			pts = append(pts, refPoint{dp.Attributes.ToSlice(), refValue{typ: sumTyp(d.IsMonotonic), value: dp.Value}})
		}
		return pts, d.IsMonotonic, nil
	case metricdata.Gauge[int64]:
		for _, dp := range d.DataPoints {
			pts = append(pts, refPoint{dp.Attributes.ToSlice(), refValue{typ: "gauge", value: float64(dp.Value)}})
		}
	case metricdata.Gauge[float64]:
		for _, dp := range d.DataPoints {
			pts = append(pts, refPoint{dp.Attributes.ToSlice(), refValue{typ: "gauge", value: dp.Value}})
		}
	case metricdata.Histogram[int64]:
		for _, dp := range d.DataPoints {
			pts = append(pts, refPoint{dp.Attributes.ToSlice(), refValue{typ: "histogram", count: dp.Count, sum: float64(dp.Sum), buckets: refCumulative(dp.Bounds, dp.BucketCounts)}})
		}
	case metricdata.Histogram[float64]:
		for _, dp := range d.DataPoints {
			pts = append(pts, refPoint{dp.Attributes.ToSlice(), refValue{typ: "histogram", count: dp.Count, sum: dp.Sum, buckets: refCumulative(dp.Bounds, dp.BucketCounts)}})
		}
	case metricdata.ExponentialHistogram[int64]:
		for _, dp := range d.DataPoints {
			pts = append(pts, refPoint{dp.Attributes.ToSlice(), refValue{typ: "native-histogram", count: dp.Count, sum: float64(dp.Sum),
				buckets: refNative(dp.Scale, dp.ZeroThreshold, dp.ZeroCount, dp.PositiveBucket.Offset, dp.PositiveBucket.Counts, dp.NegativeBucket.Offset, dp.NegativeBucket.Counts)}})
		}
	case metricdata.ExponentialHistogram[float64]:
		for _, dp := range d.DataPoints {
			pts = append(pts, refPoint{dp.Attributes.ToSlice(), refValue{typ: "native-histogram", count: dp.Count, sum: dp.Sum,
				buckets: refNative(dp.Scale, dp.ZeroThreshold, dp.ZeroCount, dp.PositiveBucket.Offset, dp.PositiveBucket.Counts, dp.NegativeBucket.Offset, dp.NegativeBucket.Counts)}})
		}
	default:
		return nil, false, fmt.Errorf("unexpected aggregation %T", m.Data)
	}
	return pts, false, nil
}

func sameFloat(a, b float64) bool {
	return a == b || (math.IsNaN(a) && math.IsNaN(b))
}
