package prometheus

// C18 (unit "names") — Prometheus scrapes never crash and expose valid, faithful series:
// the sequential part. Complete enumeration of instrument name x unit x kind x exporter
// option x validation scheme on the real exporter (fresh Registry + exporter +
// MeterProvider per case), judged against the reference in c18_ref_test.go and against
// what a second ManualReader on the same MeterProvider collected. The concurrent-scrape
// part of the property is a separate unit.

import (
	"context"
	"fmt"
	"regexp"
	"runtime/debug"
	"sort"
	"strconv"
	"strings"
	"testing"

	"github.com/prometheus/client_golang/prometheus"
	dto "github.com/prometheus/client_model/go"
	"github.com/prometheus/common/model"

	"go.opentelemetry.io/otel"
	"go.opentelemetry.io/otel/attribute"
	otelmetric "go.opentelemetry.io/otel/metric"
	"go.opentelemetry.io/otel/sdk/metric"
	"go.opentelemetry.io/otel/sdk/metric/metricdata"
	"go.opentelemetry.io/otel/sdk/resource"
	"verif/mc/enum"
)

// ---------------------------------------------------------------------------- alphabets

var c18Tokens = []string{"foo", "a", "total", "seconds", "bytes", "ratio", "Total"}
var c18Seps = []string{"_", ".", "-", "/"}
var c18Units = []string{"", "s", "ms", "By", "1", "%", "unknown"}

// c18Names: every name of <= maxTok tokens, each join with each separator; shortest first.
func c18Names(maxTok int) []string {
	var out []string
	out = append(out, c18Tokens...)
	if maxTok >= 2 {
		for _, s := range c18Seps {
			for _, a := range c18Tokens {
				for _, b := range c18Tokens {
					out = append(out, a+s+b)
				}
			}
		}
	}
	if maxTok >= 3 {
		for _, s1 := range c18Seps {
			for _, s2 := range c18Seps {
				for _, a := range c18Tokens {
					for _, b := range c18Tokens {
						for _, c := range c18Tokens {
							out = append(out, a+s1+b+s2+c)
						}
					}
				}
			}
		}
	}
	return out
}

type c18Opt struct {
	id                                                    string
	noUnits, noSuffix, ns, noScope, noTarget, resConstant bool
	nsDot                                                 bool // WithNamespace("n.s"): a namespace that itself needs sanitising under the legacy scheme
}

var c18Opts = []c18Opt{
	{id: "default"},
	{id: "WithoutUnits", noUnits: true},
	{id: "WithoutCounterSuffixes", noSuffix: true},
	{id: "WithNamespace", ns: true},
	{id: "WithNamespace(n.s)", nsDot: true},
	{id: "WithoutScopeInfo", noScope: true},
	{id: "WithoutTargetInfo", noTarget: true},
	{id: "WithResourceAsConstantLabels", resConstant: true},
	{id: "combined", noUnits: true, noSuffix: true, ns: true, noScope: true, noTarget: true, resConstant: true},
}

func (o c18Opt) options() []Option {
	var os []Option
	if o.noUnits {
		os = append(os, WithoutUnits())
	}
	if o.noSuffix {
		os = append(os, WithoutCounterSuffixes())
	}
	if o.ns {
		os = append(os, WithNamespace("ns"))
	}
	if o.nsDot {
		os = append(os, WithNamespace("n.s"))
	}
	if o.noScope {
		os = append(os, WithoutScopeInfo())
	}
	if o.noTarget {
		os = append(os, WithoutTargetInfo())
	}
	if o.resConstant {
		os = append(os, WithResourceAsConstantLabels(func(attribute.KeyValue) bool { return true }))
	}
	return os
}

// namingGroup: the part of the option that can influence the family name (for finding keys).
func (o c18Opt) namingGroup() string {
	var p []string
	if o.noUnits {
		p = append(p, "WithoutUnits")
	}
	if o.noSuffix {
		p = append(p, "WithoutCounterSuffixes")
	}
	if o.ns || o.nsDot {
		p = append(p, "WithNamespace")
	}
	if len(p) == 0 {
		return "default naming"
	}
	return strings.Join(p, "+")
}

// class prefix of data points Prometheus cannot represent (unit "points")
const c18Unrepresentable = "unrepresentable: "

type c18Set struct {
	class string
	kvs   []attribute.KeyValue
}

var c18SetIDs = map[string]string{}

func (s c18Set) id() string {
	k := fmt.Sprint(describeSets([]c18Set{s}))
	if v, ok := c18SetIDs[k]; ok {
		return v
	}
	v := kvID(s.kvs)
	c18SetIDs[k] = v
	return v
}

// attribute sets of the main product: one measurement (three for histograms) per set.
// Values are chosen so that the order of the colliding keys differs from the order of their values.
var c18MainSets = []c18Set{
	{"no attributes", nil},
	{"keys {a.b,a_b}", []attribute.KeyValue{attribute.String("a.b", "y"), attribute.String("a_b", "x")}},
	{"keys {a-b,a.b,a_b}", []attribute.KeyValue{attribute.String("a-b", "2"), attribute.String("a.b", "3"), attribute.String("a_b", "1")}},
	{"keys {B,k} (bool,int)", []attribute.KeyValue{attribute.Bool("B", true), attribute.Int("k", 7)}},
}

// key sets of the "attrs" jobs: each alone on an instrument named "foo".
var c18KeySets = []c18Set{
	{"no attributes", nil},
	{"keys {k}", []attribute.KeyValue{attribute.String("k", "v")}},
	{"keys {a.b,a_b}", []attribute.KeyValue{attribute.String("a.b", "1"), attribute.String("a_b", "2")}},
	{"keys {a.b,a_b}", []attribute.KeyValue{attribute.String("a.b", "2"), attribute.String("a_b", "1")}},
	{"keys {a.b,a_b}", []attribute.KeyValue{attribute.String("a.b", "1"), attribute.String("a_b", "1")}},
	{"keys {a-b,a.b,a_b}", []attribute.KeyValue{attribute.String("a-b", "1"), attribute.String("a.b", "2"), attribute.String("a_b", "3")}},
	{"keys {a-b,a.b,a_b}", []attribute.KeyValue{attribute.String("a-b", "3"), attribute.String("a.b", "1"), attribute.String("a_b", "2")}},
	{"keys {a-b,a.b,a_b}", []attribute.KeyValue{attribute.String("a-b", "2"), attribute.String("a.b", "3"), attribute.String("a_b", "1")}},
	{"keys {a/b,a_b,c}", []attribute.KeyValue{attribute.String("a/b", "q"), attribute.String("a_b", "p"), attribute.String("c", "r")}},
	{"keys {a.b.c,a_b.c,a.b_c}", []attribute.KeyValue{attribute.String("a.b.c", "3"), attribute.String("a_b.c", "1"), attribute.String("a.b_c", "2")}},
	{"key starts with a digit {1a}", []attribute.KeyValue{attribute.String("1a", "v")}},
	{"keys {1a,_a}", []attribute.KeyValue{attribute.String("1a", "w"), attribute.String("_a", "v")}},
	{"a key contains ':'", []attribute.KeyValue{attribute.String("a:b", "v")}},
	{"a key contains ':'", []attribute.KeyValue{attribute.String("a:b", "v"), attribute.String("a_b", "w")}},
}

type c18Kind struct {
	id      string
	counter bool // monotonic: the kinds the property calls counters
	agg     metric.Aggregation
	record  func(ctx context.Context, m otelmetric.Meter, name, unit string, sets []attribute.Set) error
}

var c18HistValues = [][]float64{{3, 7, 30}, {0, 30, 20000}, {5, 5.5, 1000}, {0.25, 99, 100}, {1, 2, 3}}
var c18ExpoValues = [][]float64{{-3, 0, 2.5}, {2.5, 2.5, 1000}, {0, 0, 0.001}, {-1, -1000, 7}, {1, 2, 4}}

func c18FloatHist(values [][]float64) func(ctx context.Context, m otelmetric.Meter, name, unit string, sets []attribute.Set) error {
	return func(ctx context.Context, m otelmetric.Meter, name, unit string, sets []attribute.Set) error {
		h, err := m.Float64Histogram(name, otelmetric.WithDescription("d"), otelmetric.WithUnit(unit))
		if err != nil {
			return err
		}
		for i, s := range sets {
			for _, v := range values[i%len(values)] {
				h.Record(ctx, v, otelmetric.WithAttributeSet(s))
			}
		}
		return nil
	}
}

func c18IntHist(values [][]float64) func(ctx context.Context, m otelmetric.Meter, name, unit string, sets []attribute.Set) error {
	return func(ctx context.Context, m otelmetric.Meter, name, unit string, sets []attribute.Set) error {
		h, err := m.Int64Histogram(name, otelmetric.WithDescription("d"), otelmetric.WithUnit(unit))
		if err != nil {
			return err
		}
		for i, s := range sets {
			for _, v := range values[i%len(values)] {
				h.Record(ctx, int64(v), otelmetric.WithAttributeSet(s))
			}
		}
		return nil
	}
}

var (
	c18ExpoSmall   = metric.AggregationBase2ExponentialHistogram{MaxSize: 160, MaxScale: 3}
	c18ExpoDefault = metric.AggregationBase2ExponentialHistogram{MaxSize: 160, MaxScale: 20} // the SDK's documented defaults
)

var c18KindIntCounter = c18Kind{id: "int_counter", counter: true, record: func(ctx context.Context, m otelmetric.Meter, name, unit string, sets []attribute.Set) error {
	c, err := m.Int64Counter(name, otelmetric.WithDescription("d"), otelmetric.WithUnit(unit))
	if err != nil {
		return err
	}
	for i, s := range sets {
		c.Add(ctx, int64(1+3*i), otelmetric.WithAttributeSet(s))
	}
	return nil
}}

var c18KindFloatCounter = c18Kind{id: "float_counter", counter: true, record: func(ctx context.Context, m otelmetric.Meter, name, unit string, sets []attribute.Set) error {
	c, err := m.Float64Counter(name, otelmetric.WithDescription("d"), otelmetric.WithUnit(unit))
	if err != nil {
		return err
	}
	for i, s := range sets {
		c.Add(ctx, 0.5+float64(i)*1.25, otelmetric.WithAttributeSet(s))
	}
	return nil
}}

var c18KindUpDown = c18Kind{id: "updown", record: func(ctx context.Context, m otelmetric.Meter, name, unit string, sets []attribute.Set) error {
	c, err := m.Int64UpDownCounter(name, otelmetric.WithDescription("d"), otelmetric.WithUnit(unit))
	if err != nil {
		return err
	}
	for i, s := range sets {
		c.Add(ctx, int64(2*i-3), otelmetric.WithAttributeSet(s))
	}
	return nil
}}

var c18KindGauge = c18Kind{id: "gauge", record: func(ctx context.Context, m otelmetric.Meter, name, unit string, sets []attribute.Set) error {
	g, err := m.Int64Gauge(name, otelmetric.WithDescription("d"), otelmetric.WithUnit(unit))
	if err != nil {
		return err
	}
	for i, s := range sets {
		g.Record(ctx, int64(10-7*i), otelmetric.WithAttributeSet(s))
	}
	return nil
}}

var c18KindHistogram = c18Kind{id: "histogram", record: c18FloatHist(c18HistValues)}
var c18KindExpo = c18Kind{id: "expo_histogram", agg: c18ExpoSmall, record: c18FloatHist(c18ExpoValues)}

var c18KindObsCounter = c18Kind{id: "observable_counter", counter: true, record: func(ctx context.Context, m otelmetric.Meter, name, unit string, sets []attribute.Set) error {
	_, err := m.Int64ObservableCounter(name, otelmetric.WithDescription("d"), otelmetric.WithUnit(unit),
		otelmetric.WithInt64Callback(func(_ context.Context, o otelmetric.Int64Observer) error {
			for i, s := range sets {
				o.Observe(int64(4+5*i), otelmetric.WithAttributeSet(s))
			}
			return nil
		}))
	return err
}}

// the seven kinds of the main product
var c18MainKinds = []c18Kind{c18KindIntCounter, c18KindFloatCounter, c18KindUpDown, c18KindGauge, c18KindHistogram, c18KindExpo, c18KindObsCounter}

// further kinds exercised by the "attrs" jobs only (fixed name)
var c18MoreKinds = []c18Kind{
	{id: "float_updown", record: func(ctx context.Context, m otelmetric.Meter, name, unit string, sets []attribute.Set) error {
		c, err := m.Float64UpDownCounter(name, otelmetric.WithDescription("d"), otelmetric.WithUnit(unit))
		if err != nil {
			return err
		}
		for i, s := range sets {
			c.Add(ctx, float64(i)-1.5, otelmetric.WithAttributeSet(s))
		}
		return nil
	}},
	{id: "float_gauge", record: func(ctx context.Context, m otelmetric.Meter, name, unit string, sets []attribute.Set) error {
		g, err := m.Float64Gauge(name, otelmetric.WithDescription("d"), otelmetric.WithUnit(unit))
		if err != nil {
			return err
		}
		for i, s := range sets {
			g.Record(ctx, 0.125-float64(i), otelmetric.WithAttributeSet(s))
		}
		return nil
	}},
	{id: "int_histogram", record: c18IntHist(c18HistValues)},
	{id: "int_expo_histogram", agg: c18ExpoSmall, record: c18IntHist(c18ExpoValues)},
	{id: "expo_histogram_sdk_default_scale", agg: c18ExpoDefault, record: c18FloatHist(c18ExpoValues)},
	{id: "observable_float_counter", counter: true, record: func(ctx context.Context, m otelmetric.Meter, name, unit string, sets []attribute.Set) error {
		_, err := m.Float64ObservableCounter(name, otelmetric.WithDescription("d"), otelmetric.WithUnit(unit),
			otelmetric.WithFloat64Callback(func(_ context.Context, o otelmetric.Float64Observer) error {
				for i, s := range sets {
					o.Observe(2.5+float64(i), otelmetric.WithAttributeSet(s))
				}
				return nil
			}))
		return err
	}},
	{id: "observable_updown", record: func(ctx context.Context, m otelmetric.Meter, name, unit string, sets []attribute.Set) error {
		_, err := m.Int64ObservableUpDownCounter(name, otelmetric.WithDescription("d"), otelmetric.WithUnit(unit),
			otelmetric.WithInt64Callback(func(_ context.Context, o otelmetric.Int64Observer) error {
				for i, s := range sets {
					o.Observe(int64(i-2), otelmetric.WithAttributeSet(s))
				}
				return nil
			}))
		return err
	}},
	{id: "observable_gauge", record: func(ctx context.Context, m otelmetric.Meter, name, unit string, sets []attribute.Set) error {
		_, err := m.Float64ObservableGauge(name, otelmetric.WithDescription("d"), otelmetric.WithUnit(unit),
			otelmetric.WithFloat64Callback(func(_ context.Context, o otelmetric.Float64Observer) error {
				for i, s := range sets {
					o.Observe(-0.5*float64(i+1), otelmetric.WithAttributeSet(s))
				}
				return nil
			}))
		return err
	}},
}

// resource and scope of every case: plain keys, keys that need sanitising and a colliding pair each.
var (
	c18ResourceKVs = []attribute.KeyValue{attribute.String("service.name", "svc"), attribute.String("r.k", "b"), attribute.String("r_k", "a")}
	c18ScopeKVs    = []attribute.KeyValue{attribute.String("s.k", "b"), attribute.String("s_k", "a")}
)

const (
	c18ScopeName    = "scope.n"
	c18ScopeVersion = "v1"
)

// ---------------------------------------------------------------------------- real execution

// capturingRegisterer forwards to a real Registry and remembers the collector the
// exporter registered, so that Collect can be driven in this goroutine (recoverable).
type capturingRegisterer struct {
	*prometheus.Registry
	got prometheus.Collector
}

func (c *capturingRegisterer) Register(col prometheus.Collector) error {
	c.got = col
	return c.Registry.Register(col)
}

func (c *capturingRegisterer) MustRegister(cols ...prometheus.Collector) {
	for _, col := range cols {
		if err := c.Register(col); err != nil {
			panic(err)
		}
	}
}

// replayCollector hands already collected metrics to a registry (unchecked collector, like the exporter's).
type replayCollector []prometheus.Metric

func (replayCollector) Describe(chan<- *prometheus.Desc) {}
func (rc replayCollector) Collect(ch chan<- prometheus.Metric) {
	for _, m := range rc {
		ch <- m
	}
}

// collectDirect calls Collect in this goroutine, so that a panic is recoverable; a helper
// goroutine drains the channel.
func collectDirect(col prometheus.Collector) (ms []prometheus.Metric, panicked any) {
	ch := make(chan prometheus.Metric, 64)
	done := make(chan struct{})
	go func() {
		for m := range ch {
			ms = append(ms, m)
		}
		close(done)
	}()
	func() {
		defer func() {
			if p := recover(); p != nil {
				panicked = p
			}
		}()
		col.Collect(ch)
	}()
	close(ch)
	<-done
	return ms, panicked
}

type c18Case struct {
	Name   string   `json:"instrument_name"`
	Unit   string   `json:"unit"`
	Kind   string   `json:"kind"`
	Opt    string   `json:"option"`
	Scheme string   `json:"validation_scheme"`
	Sets   []string `json:"attribute_sets"`
}

type c18Run struct {
	r       *enum.R
	handled []string // errors the exporter passed to otel.Handle during the current case
}

func schemeName(legacy bool) string {
	if legacy {
		return "legacy"
	}
	return "utf8"
}

func describeSets(sets []c18Set) []string {
	var out []string
	for _, s := range sets {
		var p []string
		for _, kv := range s.kvs {
			p = append(p, fmt.Sprintf("%s=%s", kv.Key, kv.Value.Emit()))
		}
		out = append(out, "{"+strings.Join(p, ",")+"}")
	}
	return out
}

// nameClass: class of an instrument name for finding keys, computed from the input only.
func nameClass(name string) string {
	i := strings.LastIndexAny(name, "_.-/")
	last := name[i+1:]
	switch {
	case name == "total":
		return "name is exactly total"
	case last == "total":
		return "name ends with a delimiter and total"
	case last == "Total":
		return "name ends with Total"
	}
	return "name without total suffix"
}

// unitClass: what the unit asks of the name (input only): nothing, a suffix the name lacks,
// or a suffix the name (before a trailing total) already ends with.
func unitClass(name, unit string, opt c18Opt) string {
	w := refUnitWords[unit]
	if w == "" || opt.noUnits {
		return "no unit suffix"
	}
	stem := name
	if i := strings.LastIndexAny(name, "_.-/"); i >= 0 && name[i+1:] == "total" {
		stem = name[:i]
	}
	if i := strings.LastIndexAny(stem, "_.-/"); stem[i+1:] == w {
		return "unit word already in the name"
	}
	return "unit suffix to add"
}

var reBraces = regexp.MustCompile(`"[^"]*"|\{[^}]*\}|[0-9]+`)

func gatherErrClass(err error) string {
	s := err.Error()
	switch {
	case strings.Contains(s, "was collected before with the same name and label values"):
		return "same name and label values collected twice"
	case strings.Contains(s, "has two or more labels with the same name"):
		return "duplicate label name"
	case strings.Contains(s, "is not a valid"), strings.Contains(s, "invalid"):
		return "invalid name"
	case strings.Contains(s, "panic"):
		return "panic"
	}
	s = reBraces.ReplaceAllString(s, "#")
	if len(s) > 80 {
		s = s[:80]
	}
	return s
}

type scrape struct {
	what string
	fams []*dto.MetricFamily
	err  error
}

// canonFamilies: everything the oracles look at in one scrape, in a canonical order. Two
// scrapes with the same canonical text get the same verdict from judge.
func canonFamilies(fams []*dto.MetricFamily) string {
	var lines []string
	for _, f := range fams {
		for _, m := range f.Metric {
			_, v := actualValue(f, m)
			var b strings.Builder
			b.WriteString(f.GetName())
			b.WriteByte(' ')
			b.WriteString(f.GetType().String())
			b.WriteString(" {")
			b.WriteString(labelString(m))
			b.WriteString("} ")
			b.WriteString(v.typ)
			b.WriteByte(' ')
			b.WriteString(fstr(v.value))
			b.WriteByte(' ')
			b.WriteString(strconv.FormatUint(v.count, 10))
			b.WriteByte(' ')
			b.WriteString(fstr(v.sum))
			b.WriteByte(' ')
			b.WriteString(v.buckets)
			lines = append(lines, b.String())
		}
		if len(f.Metric) == 0 {
			lines = append(lines, f.GetName()+" "+f.GetType().String()+" (empty)")
		}
	}
	sort.Strings(lines)
	return strings.Join(lines, "\n")
}

// labelString: the label pairs of an exposed series, sorted by name (duplicates kept), in
// the same text form as refLabelString.
func labelString(m *dto.Metric) string {
	ps := make([]string, 0, len(m.Label))
	for _, lp := range m.Label {
		ps = append(ps, strconv.Quote(lp.GetName())+"="+strconv.Quote(lp.GetValue())+",")
	}
	sort.Strings(ps)
	return strings.Join(ps, "")
}

// actualValue reads one exposed series back from the protobuf the registry produced.
func actualValue(f *dto.MetricFamily, m *dto.Metric) (ok bool, v refValue) {
	switch f.GetType() {
	case dto.MetricType_COUNTER:
		if m.Counter == nil {
			return false, v
		}
		return true, refValue{typ: "counter", value: m.Counter.GetValue()}
	case dto.MetricType_GAUGE:
		if m.Gauge == nil {
			return false, v
		}
		return true, refValue{typ: "gauge", value: m.Gauge.GetValue()}
	case dto.MetricType_HISTOGRAM:
		h := m.Histogram
		if h == nil {
			return false, v
		}
		if h.Schema != nil {
			side := func(spans []*dto.BucketSpan, deltas []int64) string {
				var b strings.Builder
				idx, k := 0, 0
				cnt := int64(0)
				for _, sp := range spans {
					idx += int(sp.GetOffset())
					for j := uint32(0); j < sp.GetLength(); j++ {
						if k >= len(deltas) {
							b.WriteString("SPAN-WITHOUT-DELTA ")
							break
						}
						cnt += deltas[k]
						k++
						if cnt != 0 {
							fmt.Fprintf(&b, "%d:%d ", idx, cnt)
						}
						idx++
					}
				}
				if k != len(deltas) {
					b.WriteString("DELTA-WITHOUT-SPAN ")
				}
				return b.String()
			}
			return true, refValue{typ: "native-histogram", count: h.GetSampleCount(), sum: h.GetSampleSum(),
				buckets: fmt.Sprintf("schema=%d zt=%s zc=%d +{%s} -{%s}", h.GetSchema(), fstr(h.GetZeroThreshold()), h.GetZeroCount(),
					side(h.PositiveSpan, h.PositiveDelta), side(h.NegativeSpan, h.NegativeDelta))}
		}
		var b strings.Builder
		for _, bk := range h.Bucket {
			b.WriteString(fstr(bk.GetUpperBound()))
			b.WriteByte(':')
			b.WriteString(strconv.FormatUint(bk.GetCumulativeCount(), 10))
			b.WriteByte(' ')
		}
		return true, refValue{typ: "histogram", count: h.GetSampleCount(), sum: h.GetSampleSum(), buckets: b.String()}
	}
	return false, v
}

// one runs one case: instrument `name`/`unit` of `kind`, one measurement per attribute set,
// exporter configured with `opt`, under the given validation scheme.
func (c *c18Run) one(name, unit string, kind c18Kind, opt c18Opt, legacy bool, sets []c18Set) {
	r := c.r
	cas := c18Case{Name: name, Unit: unit, Kind: kind.id, Opt: opt.id, Scheme: schemeName(legacy), Sets: describeSets(sets)}
	ncls := nameClass(name)

	// Option values are built before the scheme is selected (the process default is UTF-8), the way
	// a package-level []Option is: what an option does is decided when New applies it.
	prebuilt := opt.options()
	saved := model.NameValidationScheme //nolint:staticcheck // this is how this version of the exporter selects the scheme
	if legacy {
		model.NameValidationScheme = model.LegacyValidation //nolint:staticcheck
	} else {
		model.NameValidationScheme = model.UTF8Validation //nolint:staticcheck
	}
	defer func() { model.NameValidationScheme = saved }() //nolint:staticcheck
	c.handled = c.handled[:0]

	enum.Guard("process-death|scrape|"+counterClass(kind)+"|"+ncls, cas, r.Here())
	defer enum.Unguard()

	// ---- the system under test, fresh per case
	reg := &capturingRegisterer{Registry: prometheus.NewRegistry()}
	exp, err := New(append([]Option{WithRegisterer(reg)}, prebuilt...)...)
	if err != nil || reg.got == nil {
		r.FailHere("new|exporter construction failed", cas, "New: %v (collector registered: %v)", err, reg.got != nil)
		return
	}
	manual := metric.NewManualReader()
	mpOpts := []metric.Option{
		metric.WithReader(exp), metric.WithReader(manual),
		metric.WithResource(resource.NewSchemaless(c18ResourceKVs...)),
	}
	if kind.agg != nil {
		mpOpts = append(mpOpts, metric.WithView(metric.NewView(metric.Instrument{Name: "*"}, metric.Stream{Aggregation: kind.agg})))
	}
	mp := metric.NewMeterProvider(mpOpts...)
	ctx := context.Background()
	meter := mp.Meter(c18ScopeName, otelmetric.WithInstrumentationVersion(c18ScopeVersion), otelmetric.WithInstrumentationAttributes(c18ScopeKVs...))
	asets := make([]attribute.Set, len(sets))
	for i, s := range sets {
		asets[i] = attribute.NewSet(append([]attribute.KeyValue{}, s.kvs...)...)
	}
	if err := kind.record(ctx, meter, name, unit, asets); err != nil {
		r.FailHere("harness|instrument rejected", cas, "the metrics API rejected a name of the alphabet: %v", err)
		return
	}

	// ---- scrapes 1 and 2: Collect driven directly in this goroutine, recoverable. The first
	// fills the collector's caches (target info, scope infos, metric families, resource
	// labels), the second runs on the cached paths. What Collect sent is handed to a fresh
	// Registry, whose Gather applies the registry's consistency checks.
	var scrapes []scrape
	for i, what := range []string{"first scrape (Collect called directly, output gathered by a fresh Registry)", "second scrape (Collect called directly, output gathered by a fresh Registry)"} {
		r.Eval()
		ms, panicked := collectDirect(reg.got)
		if panicked != nil {
			r.FailHere("panic|Collect|"+counterClass(kind)+"|"+ncls, cas, "collector.Collect panicked on scrape %d: %v", i+1, panicked)
			return
		}
		rr := prometheus.NewRegistry()
		if err := rr.Register(replayCollector(ms)); err != nil {
			r.FailHere("harness|replay registry", cas, "%v", err)
			return
		}
		f, e := rr.Gather()
		scrapes = append(scrapes, scrape{what, f, e})
	}
	// ---- scrape 3: the exporter's own Registry. Its goroutines run the same deterministic
	// Collect that has just returned twice; the Guard above attributes a process death anyway.
	r.Eval()
	f3, e3 := reg.Gather()
	scrapes = append(scrapes, scrape{"third scrape (Registry.Gather on the exporter's registry)", f3, e3})

	// ---- what the SDK aggregated: a second ManualReader on the same provider
	var rm metricdata.ResourceMetrics
	if err := manual.Collect(ctx, &rm); err != nil {
		r.FailHere("harness|reference reader", cas, "ManualReader.Collect: %v", err)
		return
	}
	if len(rm.ScopeMetrics) != 1 || len(rm.ScopeMetrics[0].Metrics) != 1 {
		r.FailHere("harness|reference reader", cas, "ManualReader reports %d scopes", len(rm.ScopeMetrics))
		return
	}
	pts, mono, err := refPoints(rm.ScopeMetrics[0].Metrics[0])
	if err != nil || mono != kind.counter || len(pts) != len(sets) {
		r.FailHere("harness|reference reader", cas, "reference points: err=%v monotonic=%v points=%d", err, mono, len(pts))
		return
	}

	naming := refNaming{counter: kind.counter, noUnits: opt.noUnits, noSuffix: opt.noSuffix, legacy: legacy}
	if opt.ns {
		naming.namespace = "ns"
	}
	if opt.nsDot {
		naming.namespace = "n.s"
		if legacy {
			naming.namespace = "n_s"
		}
	}
	wantNames := refNames(name, unit, naming)

	// scrapes with identical content get identical verdicts: judge each distinct content once
	canon := make([]string, len(scrapes))
	for i, s := range scrapes {
		canon[i] = canonFamilies(s.fams)
		same := false
		for j := 0; j < i; j++ {
			same = same || (canon[j] == canon[i] && (scrapes[j].err == nil) == (s.err == nil))
		}
		if !same {
			c.judge(s, cas, kind, opt, legacy, sets, pts, wantNames, ncls, unitClass(name, unit, opt))
		}
	}
	// ---- determinism: consecutive scrapes of unchanged data expose the same thing
	for i, s := range scrapes[1:] {
		if canon[i+1] != canon[0] {
			r.FailHere("determinism|consecutive scrapes differ|"+kind.id, cas, "first scrape:\n%s\n%s:\n%s", canon[0], s.what, canon[i+1])
			break
		}
	}
	for _, f := range scrapes[2].fams {
		if n := f.GetName(); n != targetInfoMetricName && n != scopeInfoMetricName {
			r.Outcome(n + " " + f.GetType().String())
		}
	}
	r.Sample(func() any {
		var fams []string
		for _, f := range scrapes[2].fams {
			fams = append(fams, f.GetName())
		}
		return map[string]any{"case": cas, "exposed_families": fams, "admitted_names": wantNames}
	})
}

// judge evaluates every sequential clause of the property on one scrape.
func (c *c18Run) judge(s scrape, cas c18Case, kind c18Kind, opt c18Opt, legacy bool, sets []c18Set, pts []refPoint, wantNames []string, ncls, ucls string) {
	r := c.r
	sch := schemeName(legacy)
	if s.err != nil {
		r.FailHere("gather-error|"+gatherErrClass(s.err)+"|"+sch, cas, "%s returned an error: %v (errors handled by the exporter: %q)", s.what, s.err, c.handled)
		return
	}
	var main []*dto.MetricFamily
	var target, scope *dto.MetricFamily
	for _, f := range s.fams {
		switch f.GetName() {
		case targetInfoMetricName:
			target = f
		case scopeInfoMetricName:
			scope = f
		default:
			main = append(main, f)
		}
		// legality of every exposed name under the active scheme
		if !refLegalMetricName(f.GetName(), legacy) {
			r.FailHere("illegal-name|metric|"+sch+"|"+ncls, cas, "%s: family name %q is not legal under the %s scheme", s.what, f.GetName(), sch)
		}
		for _, m := range f.Metric {
			seen := map[string]bool{}
			for _, lp := range m.Label {
				if !refLegalLabelName(lp.GetName(), legacy) {
					r.FailHere("illegal-name|label|"+sch, cas, "%s: label name %q of %s is not legal under the %s scheme", s.what, lp.GetName(), f.GetName(), sch)
				}
				if seen[lp.GetName()] {
					r.FailHere("labels|duplicate label name|"+sch, cas, "%s: label %q twice on %s", s.what, lp.GetName(), f.GetName())
				}
				seen[lp.GetName()] = true
			}
		}
	}

	// ---- info series present iff configured
	c.judgeInfo(s, cas, "target_info", target, !opt.noTarget, refLabels(c18ResourceKVs, legacy), sch)
	scopeKVs := append(append([]attribute.KeyValue{}, c18ScopeKVs...), attribute.String("otel_scope_name", c18ScopeName), attribute.String("otel_scope_version", c18ScopeVersion))
	c.judgeInfo(s, cas, "otel_scope_info", scope, !opt.noScope, refLabels(scopeKVs, legacy), sch)

	// ---- exactly one family for the one instrument, under an admitted name
	if len(main) == 0 {
		r.FailHere("series|not exposed|"+dropClass(kind, sch, sets), cas, "%s: the instrument is not exposed at all (errors handled by the exporter: %q)", s.what, c.handled)
		return
	}
	if len(main) > 1 {
		var ns []string
		for _, f := range main {
			ns = append(ns, f.GetName())
		}
		r.FailHere("series|more than one family|"+kind.id, cas, "%s: one instrument, families %q", s.what, ns)
		return
	}
	fam := main[0]
	okName := false
	for _, w := range wantNames {
		okName = okName || fam.GetName() == w
	}
	if !okName {
		r.FailHere("name|"+counterClass(kind)+"|"+ncls+"|"+ucls+"|"+opt.namingGroup(), cas, "%s: family name %q, the property admits %q (scheme %s)", s.what, fam.GetName(), wantNames, sch)
	}

	// ---- series: labels and values equal the SDK's aggregated view
	extra := map[string]string{}
	if !opt.noScope {
		extra["otel_scope_name"] = c18ScopeName
		extra["otel_scope_version"] = c18ScopeVersion
	}
	if opt.resConstant {
		for k, v := range refLabels(c18ResourceKVs, legacy) {
			extra[k] = v
		}
	}
	actual := map[string]*dto.Metric{}
	for _, m := range fam.Metric {
		ls := labelString(m)
		if _, dup := actual[ls]; dup {
			r.FailHere("labels|same label set twice|"+sch, cas, "%s: two series {%s} in %s", s.what, ls, fam.GetName())
		}
		actual[ls] = m
	}
	var actualKeys []string
	for k := range actual {
		actualKeys = append(actualKeys, k)
	}
	sort.Strings(actualKeys)
	matched := map[string]bool{}
	for _, p := range pts {
		want := refLabels(p.attrs, legacy)
		for k, v := range extra {
			want[k] = v
		}
		ls := refLabelString(want)
		class := "?"
		pd := kvID(p.attrs)
		for _, st := range sets {
			if st.id() == pd {
				class = st.class
			}
		}
		m, ok := actual[ls]
		if !ok {
			// is the point there with its own labels right and only the constant (scope /
			// resource) labels wrong? Then the finding is about those, not about this set.
			own := refLabels(p.attrs, legacy)
			for _, am := range fam.Metric {
				has := 0
				for _, lp := range am.Label {
					if v, ok := own[lp.GetName()]; ok && v == lp.GetValue() {
						has++
					}
				}
				if has == len(own) && !exactExpected(am, pts, legacy, extra) && onlyConstNames(am, own, legacy) {
					class = "scope and resource labels"
				}
			}
			r.FailHere("labels|"+dropClass(kind, sch, []c18Set{{class: class}}), cas, "%s: no series with labels {%s} in %s; exposed label sets: %q (errors handled by the exporter: %q)", s.what, ls, fam.GetName(), actualKeys, c.handled)
			continue
		}
		matched[ls] = true
		ok, got := actualValue(fam, m)
		if !ok {
			r.FailHere("value|"+kind.id+"|series has no value of the family's type", cas, "%s: %s{%s} type %s", s.what, fam.GetName(), ls, fam.GetType())
			continue
		}
		w := p.val
		switch {
		case got.typ != w.typ:
			r.FailHere("value|"+kind.id+"|type", cas, "%s: %s{%s} exposed as %s, SDK aggregation is a %s", s.what, fam.GetName(), ls, got.typ, w.typ)
		case w.typ == "counter" || w.typ == "gauge":
			if !sameFloat(got.value, w.value) {
				r.FailHere("value|"+kind.id+"|"+w.typ+" value", cas, "%s: %s{%s} = %v, SDK aggregated %v", s.what, fam.GetName(), ls, got.value, w.value)
			}
		default:
			if got.count != w.count {
				r.FailHere("value|"+kind.id+"|count", cas, "%s: %s{%s} count %d, SDK aggregated %d", s.what, fam.GetName(), ls, got.count, w.count)
			}
			if !sameFloat(got.sum, w.sum) {
				r.FailHere("value|"+kind.id+"|sum", cas, "%s: %s{%s} sum %v, SDK aggregated %v", s.what, fam.GetName(), ls, got.sum, w.sum)
			}
			if got.buckets != w.buckets {
				r.FailHere("value|"+kind.id+"|bucket counts", cas, "%s: %s{%s} buckets [%s], SDK aggregated (cumulated) [%s]", s.what, fam.GetName(), ls, got.buckets, w.buckets)
			}
		}
	}
	for _, k := range actualKeys {
		if !matched[k] {
			r.FailHere("series|unexpected series|"+sch, cas, "%s: %s{%s} is exposed but the SDK aggregated no such point", s.what, fam.GetName(), k)
		}
	}
}

// kvID identifies an attribute set of the alphabet (keys are unique within a set).
func kvID(kvs []attribute.KeyValue) string {
	var p []string
	for _, kv := range kvs {
		p = append(p, fmt.Sprintf("%q=%q", string(kv.Key), refEmit(kv.Value)))
	}
	sort.Strings(p)
	return strings.Join(p, ",")
}

// exactExpected: the exposed series is exactly what some aggregated point should look like.
func exactExpected(am *dto.Metric, pts []refPoint, legacy bool, extra map[string]string) bool {
	ls := labelString(am)
	for _, p := range pts {
		want := refLabels(p.attrs, legacy)
		for k, v := range extra {
			want[k] = v
		}
		if refLabelString(want) == ls {
			return true
		}
	}
	return false
}

// onlyConstNames: every label of the series that is not one of the point's own labels has
// the name of a scope or resource label.
func onlyConstNames(am *dto.Metric, own map[string]string, legacy bool) bool {
	constNames := map[string]bool{"otel_scope_name": true, "otel_scope_version": true}
	for k := range refLabels(c18ResourceKVs, legacy) {
		constNames[k] = true
	}
	for _, lp := range am.Label {
		if _, ok := own[lp.GetName()]; !ok && !constNames[lp.GetName()] {
			return false
		}
	}
	return true
}

func counterClass(k c18Kind) string {
	if k.counter {
		return "counter"
	}
	return "non-counter"
}

// dropClass: class of a series that is missing from the scrape, for finding keys.
func dropClass(k c18Kind, sch string, sets []c18Set) string {
	if k.agg == c18ExpoDefault {
		return "exponential histogram at the SDK default MaxScale 20"
	}
	// unit "points": data points Prometheus has no representation for keep their own class,
	// alone or among themselves, so that the recorded defect stays apart from any other loss
	unrep := len(sets) > 0
	for _, s := range sets {
		unrep = unrep && strings.HasPrefix(s.class, c18Unrepresentable)
	}
	if unrep {
		class := strings.TrimPrefix(sets[0].class, c18Unrepresentable)
		for _, s := range sets[1:] {
			if s.class != sets[0].class {
				class = "only exponential histogram data points at scales outside -4..8"
			}
		}
		return class
	}
	class := sets[0].class
	for _, s := range sets[1:] {
		if s.class != class {
			class = "several attribute sets"
		}
	}
	return sch + "|" + class
}

func (c *c18Run) judgeInfo(s scrape, cas c18Case, name string, fam *dto.MetricFamily, want bool, labels map[string]string, sch string) {
	r := c.r
	switch {
	case fam == nil && want:
		r.FailHere("info|"+name+"|missing", cas, "%s: %s is configured but not exposed (errors handled by the exporter: %q)", s.what, name, c.handled)
	case fam != nil && !want:
		r.FailHere("info|"+name+"|exposed although disabled", cas, "%s: %s is exposed although the exporter was configured without it", s.what, name)
	case fam != nil:
		okv := len(fam.Metric) == 1 && fam.GetType() == dto.MetricType_GAUGE && fam.Metric[0].Gauge != nil && fam.Metric[0].Gauge.GetValue() == 1
		if !okv {
			r.FailHere("info|"+name+"|not a single gauge of value 1", cas, "%s: %s: %v", s.what, name, fam)
			return
		}
		if got, w := labelString(fam.Metric[0]), refLabelString(labels); got != w {
			r.FailHere("info|"+name+"|labels|"+sch, cas, "%s: %s labels {%s}, expected {%s}", s.what, name, got, w)
		}
	}
}

// ---------------------------------------------------------------------------- jobs

func TestVerifC18(t *testing.T) {
	var jobs []string
	for _, k := range c18MainKinds {
		for _, o := range c18Opts {
			jobs = append(jobs, "names/"+k.id+"/"+o.id)
		}
	}
	jobs = append(jobs, "attrs/utf8", "attrs/legacy", "units", "lastchar")
	enum.Jobs(jobs, func(job string) {
		r := enum.Start("C18", "names")
		defer r.Finish()
		run := &c18Run{r: r}
		debug.SetGCPercent(800) // thousands of short-lived registries and providers; the live heap is tiny
		otel.SetErrorHandler(otel.ErrorHandlerFunc(func(err error) {
			if len(run.handled) < 8 {
				run.handled = append(run.handled, err.Error())
			}
		}))
		maxTok := enum.Pick(r, 2, 3)
		r.Bound("max_name_tokens", maxTok)
		r.Bound("name_tokens", c18Tokens)
		r.Bound("name_separators", c18Seps)
		r.Bound("units", c18Units)
		r.Bound("scrapes_per_case", 3)
		r.Bound("validation_schemes", []string{"utf8", "legacy"})
		var kindIDs, optIDs []string
		for _, k := range c18MainKinds {
			kindIDs = append(kindIDs, k.id)
		}
		for _, o := range c18Opts {
			optIDs = append(optIDs, o.id)
		}
		r.Bound("kinds", kindIDs)
		r.Bound("options", optIDs)
		r.Section(job)
		parts := strings.Split(job, "/")
		switch parts[0] {
		case "names":
			var kind c18Kind
			var opt c18Opt
			for _, k := range c18MainKinds {
				if k.id == parts[1] {
					kind = k
				}
			}
			for _, o := range c18Opts {
				if o.id == parts[2] {
					opt = o
				}
			}
			names := c18Names(maxTok)
			r.Bound("names", len(names))
			r.Bound("attribute_sets_per_instrument", describeSets(c18MainSets))
			for _, name := range names {
				for _, unit := range c18Units {
					for _, legacy := range []bool{false, true} {
						if r.Expired() {
							return
						}
						if !r.Want() {
							continue
						}
						run.one(name, unit, kind, opt, legacy, c18MainSets)
					}
				}
			}
		case "units":
			// "all units": every unit of the documented OTel -> Prometheus table (and a few outside it), names
			// that do / do not already end in the unit word, every kind and option, both schemes
			var all []string
			for u := range refUnitWords {
				all = append(all, u)
			}
			sort.Strings(all)
			all = append(all, "", "unknown", "{packets}", "By/s", "KiBy/m")
			r.Bound("units_all", all)
			for _, unit := range all {
				names := []string{"foo", "foo_" + refUnitWords[unit], "foo.total"}
				for _, name := range names {
					if strings.HasSuffix(name, "_") {
						continue
					}
					for _, kind := range c18MainKinds {
						for _, opt := range c18Opts {
							for _, legacy := range []bool{false, true} {
								if r.Expired() {
									return
								}
								if !r.Want() {
									continue
								}
								run.one(name, unit, kind, opt, legacy, c18MainSets)
							}
						}
					}
				}
			}
		case "lastchar":
			// names whose last character (before and after a _total suffix is cut) is the first or the
			// last of a character class: a z A Z 0 9
			var names []string
			for _, c := range []string{"a", "z", "A", "Z", "0", "9", "m"} {
				names = append(names, "x"+c, "x"+c+"_total", "x"+c+".total", "x_"+c)
			}
			r.Bound("lastchar_names", names)
			for _, name := range names {
				for _, unit := range c18Units {
					for _, kind := range c18MainKinds {
						for _, opt := range c18Opts {
							for _, legacy := range []bool{false, true} {
								if r.Expired() {
									return
								}
								if !r.Want() {
									continue
								}
								run.one(name, unit, kind, opt, legacy, c18MainSets)
							}
						}
					}
				}
			}
		case "attrs":
			legacy := parts[1] == "legacy"
			kinds := append(append([]c18Kind{}, c18MainKinds...), c18MoreKinds...)
			r.Bound("attrs_key_sets", describeSets(c18KeySets))
			r.Bound("attrs_kinds", len(kinds))
			for _, ks := range c18KeySets {
				for _, kind := range kinds {
					for _, opt := range c18Opts {
						for _, unit := range []string{"", "s"} {
							if r.Expired() {
								return
							}
							if !r.Want() {
								continue
							}
							run.one("foo", unit, kind, opt, legacy, []c18Set{ks})
						}
					}
				}
			}
		}
	})
}
