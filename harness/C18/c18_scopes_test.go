package prometheus

// C18 (unit "scopes") — scope identity. Two meters of one provider whose instrumentation scopes
// share the name and differ in exactly one of {version, schema URL, scope attributes} each own a
// counter "c" (and a second instrument of another kind). Every scrape must be accepted by the
// registry and expose both counters' values: the scopes are different scopes to the SDK (two
// streams), so the exporter has to keep their series apart or merge them -- not emit the same
// series twice. Three scrapes, measurements between them.

import (
	"context"
	"fmt"
	"sort"
	"strings"
	"testing"

	"github.com/prometheus/client_golang/prometheus"
	"go.opentelemetry.io/otel/attribute"
	otelmetric "go.opentelemetry.io/otel/metric"
	"go.opentelemetry.io/otel/sdk/metric"
	"verif/mc/enum"
)

func TestVerifC18Scopes(t *testing.T) {
	enum.Jobs([]string{"scope-pairs"}, func(job string) {
		r := enum.Start("C18", "scopes")
		defer r.Finish()
		r.Section(job)
		diffs := []string{"version", "schema URL", "attributes", "name"}
		r.Bound("scope_pair_differences", diffs)
		ctx := context.Background()
		for _, diff := range diffs {
			for _, second := range []string{"counter", "gauge"} {
				if !r.Want() {
					continue
				}
				r.Eval()
				cas := map[string]any{"scopes_differ_in": diff, "second_instrument": second}
				func() {
					defer func() {
						if p := recover(); p != nil {
							r.FailHere("panic|scope pair|"+diff, cas, "panic: %v", p)
						}
					}()
					reg := prometheus.NewRegistry()
					exp, err := New(WithRegisterer(reg))
					if err != nil {
						r.FailHere("scopes|exporter construction", cas, "%v", err)
						return
					}
					mp := metric.NewMeterProvider(metric.WithReader(exp))
					defer func() { _ = mp.Shutdown(ctx) }()
					var m1, m2 otelmetric.Meter
					switch diff {
					case "version":
						m1, m2 = mp.Meter("a", otelmetric.WithInstrumentationVersion("v1")), mp.Meter("a", otelmetric.WithInstrumentationVersion("v2"))
					case "schema URL":
						m1, m2 = mp.Meter("a", otelmetric.WithSchemaURL("https://verif.test/1")), mp.Meter("a", otelmetric.WithSchemaURL("https://verif.test/2"))
					case "attributes":
						m1, m2 = mp.Meter("a", otelmetric.WithInstrumentationAttributes(attribute.Int("x", 1))), mp.Meter("a", otelmetric.WithInstrumentationAttributes(attribute.Int("x", 2)))
					case "name":
						m1, m2 = mp.Meter("a"), mp.Meter("b")
					}
					c1, _ := m1.Int64Counter("c")
					add2 := func(v int64) {}
					if second == "counter" {
						c2, _ := m2.Int64Counter("c")
						add2 = func(v int64) { c2.Add(ctx, v) }
					} else {
						g2, _ := m2.Int64Gauge("g")
						add2 = func(v int64) { g2.Record(ctx, v) }
					}
					var outs []string
					for scrape := 1; scrape <= 3; scrape++ {
						c1.Add(ctx, 1)
						add2(int64(10 * scrape))
						mfs, err := reg.Gather()
						if err != nil {
							msg := err.Error()
							if i := strings.Index(msg, "\n"); i > 0 {
								msg = msg[:i]
							}
							r.FailHere("scopes|registry rejects the scrape|scopes differ only in "+diff, cas, "Gather (scrape %d): %s", scrape, msg)
							return
						}
						var total float64
						n := 0
						for _, mf := range mfs {
							if mf.GetName() == "c_total" {
								for _, m := range mf.Metric {
									total += m.GetCounter().GetValue()
									n++
								}
							}
						}
						want := float64(scrape)
						if second == "counter" {
							want += float64(10 * scrape * (scrape + 1) / 2)
						}
						if total != want {
							r.FailHere("scopes|counter values|scopes differ only in "+diff, cas, "scrape %d: c_total series add up to %v over %d series, recorded %v", scrape, total, n, want)
						}
						var names []string
						for _, mf := range mfs {
							names = append(names, fmt.Sprintf("%s:%d", mf.GetName(), len(mf.Metric)))
						}
						sort.Strings(names)
						outs = append(outs, strings.Join(names, ","))
					}
					r.Outcome(diff + "|" + second + "|" + strings.Join(outs, ";"))
					r.Sample(func() any { cas["families"] = outs; return cas })
				}()
			}
		}
	})
}
