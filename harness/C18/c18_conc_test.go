package prometheus

// C18 (concurrency part) — concurrent scrapes and measurements are race free. The real
// collector (instrumented copy of exporters/prometheus) runs under the controlled scheduler:
// two scrape threads call Collect while a third records; every schedule up to the preemption
// bound is executed, first in a normal build (consistency of what each scrape returns), then in
// a -race build in which the scheduler's hand-offs are hidden from the race detector.

import (
	"context"
	"fmt"
	"sort"
	"strings"
	"testing"

	"github.com/prometheus/client_golang/prometheus"
	dto "github.com/prometheus/client_model/go"

	"verif/mc/enum"
	"verif/mc/sched"
	"verif/mc/vatomic"
	"verif/mc/vsync"

	"go.opentelemetry.io/otel/attribute"
	otelmetric "go.opentelemetry.io/otel/metric"
	"go.opentelemetry.io/otel/sdk/instrumentation"
	"go.opentelemetry.io/otel/sdk/metric"
	"go.opentelemetry.io/otel/sdk/metric/metricdata"
	"go.opentelemetry.io/otel/sdk/resource"
)

type c18cReg struct{ c prometheus.Collector }

func (r *c18cReg) Register(c prometheus.Collector) error   { r.c = c; return nil }
func (r *c18cReg) MustRegister(cs ...prometheus.Collector) { r.c = cs[0] }
func (r *c18cReg) Unregister(prometheus.Collector) bool    { return true }

// scrape drives Collect directly (what Registry.Gather does in a goroutine) and renders the result.
func c18cScrape(c prometheus.Collector) ([]string, error) {
	out, _, err := c18cScrapeH(c)
	return out, err
}

// c18cScrapeH also returns, per metric family name, the HELP texts of its series in this scrape.
func c18cScrapeH(c prometheus.Collector) ([]string, map[string][]string, error) {
	helps := map[string][]string{}
	ch := make(chan prometheus.Metric, 256)
	c.Collect(ch)
	sched.Close(ch)
	var out []string
	for {
		m, ok := sched.ChR(ch).Recv2()
		if !ok {
			break
		}
		var d dto.Metric
		if err := m.Write(&d); err != nil {
			return nil, nil, err
		}
		var ls []string
		for _, l := range d.Label {
			ls = append(ls, l.GetName()+"="+l.GetValue())
		}
		sort.Strings(ls)
		v := ""
		switch {
		case d.Counter != nil:
			v = fmt.Sprint(d.Counter.GetValue())
		case d.Gauge != nil:
			v = fmt.Sprint(d.Gauge.GetValue())
		}
		desc := m.Desc().String()
		name := desc[strings.Index(desc, "fqName: \"")+9:]
		name = name[:strings.Index(name, "\"")]
		out = append(out, fmt.Sprintf("%s{%s} %s", name, strings.Join(ls, ","), v))
		help := desc[strings.Index(desc, "help: \"")+7:]
		help = help[:strings.Index(help, "\"")]
		known := false
		for _, h := range helps[name] {
			known = known || h == help
		}
		if !known {
			helps[name] = append(helps[name], help)
		}
	}
	sort.Strings(out)
	return out, helps, nil
}

// c18cOneScope is an external producer of one scope with one counter.
type c18cOneScope struct{}

func (c18cOneScope) Produce(context.Context) ([]metricdata.ScopeMetrics, error) {
	return []metricdata.ScopeMetrics{{Scope: instrumentation.Scope{Name: "m2"}, Metrics: []metricdata.Metrics{{Name: "req2",
		Data: metricdata.Sum[int64]{Temporality: metricdata.CumulativeTemporality, IsMonotonic: true, DataPoints: []metricdata.DataPoint[int64]{{Value: 5}}}}}}}, nil
}

// c18cProducer is an external metric.Producer with two scopes that both define the counter "dup",
// with different descriptions; every other call lists the scopes in the opposite order (as the
// SDK's own map-ordered scope list may).
type c18cProducer struct{ calls vatomic.Int32 }

func (p *c18cProducer) Produce(context.Context) ([]metricdata.ScopeMetrics, error) {
	n := p.calls.Add(1)
	mk := func(scope, desc string, v int64) metricdata.ScopeMetrics {
		return metricdata.ScopeMetrics{Scope: instrumentation.Scope{Name: scope}, Metrics: []metricdata.Metrics{{Name: "dup", Description: desc,
			Data: metricdata.Sum[int64]{Temporality: metricdata.CumulativeTemporality, IsMonotonic: true, DataPoints: []metricdata.DataPoint[int64]{{Value: v}}}}}}
	}
	a, b := mk("pa", "from A", 10), mk("pb", "from B", 20)
	if n%2 == 1 {
		return []metricdata.ScopeMetrics{a, b}, nil
	}
	return []metricdata.ScopeMetrics{b, a}, nil
}

// c18cLateProducer: the family "dup" (two scopes, two descriptions, fixed order) does not exist yet
// when the first collection takes its snapshot; every later collection sees it. A scrape that
// started before the instruments were created must not disturb what a later scrape decided.
type c18cLateProducer struct{ calls vatomic.Int32 }

func (p *c18cLateProducer) Produce(context.Context) ([]metricdata.ScopeMetrics, error) {
	if p.calls.Add(1) == 1 {
		return nil, nil
	}
	mk := func(scope, desc string, v int64) metricdata.ScopeMetrics {
		return metricdata.ScopeMetrics{Scope: instrumentation.Scope{Name: scope}, Metrics: []metricdata.Metrics{{Name: "dup", Description: desc,
			Data: metricdata.Sum[int64]{Temporality: metricdata.CumulativeTemporality, IsMonotonic: true, DataPoints: []metricdata.DataPoint[int64]{{Value: v}}}}}}
	}
	return []metricdata.ScopeMetrics{mk("pa", "from A", 10), mk("pb", "from B", 20)}, nil
}

type c18cScn struct {
	name    string
	opts    func() []Option
	threads [][]string // ops: Scrape, Add
	varying bool       // the set of series legitimately differs between scrapes (instruments appear meanwhile)
	e       int        // environment deviations (deadlines the collector may put on a scrape)
	slowCb  bool       // an observable gauge whose callback takes time (a deadline can end while it runs)
}

func c18cBody(sc c18cScn, res *string) func(x *sched.Exec) {
	return func(x *sched.Exec) {
		ctx := context.Background()
		reg := &c18cReg{}
		withShutdown := false
		for _, t := range sc.threads {
			for _, op := range t {
				withShutdown = withShutdown || op == "Shutdown"
			}
		}
		opts := append(sc.opts(), WithRegisterer(reg))
		if withShutdown {
			// a second scope: the scrape has per-scope work left when the provider is shut down under
			// it. It comes from an external producer, which the reader lists after the SDK's own scope
			// (two SDK scopes would be listed in map order, different from run to run).
			opts = append(opts, WithProducer(c18cOneScope{}))
		}
		exp, err := New(opts...)
		if err != nil {
			x.Fail("C18|exporter-construction", "New: %v", err)
			return
		}
		rs := resource.NewSchemaless(attribute.String("service.name", "svc"), attribute.String("env", "prod"))
		mp := metric.NewMeterProvider(metric.WithReader(exp), metric.WithResource(rs))
		ctr, _ := mp.Meter("m", otelmetric.WithInstrumentationVersion("v1")).Int64Counter("req")
		ctr.Add(ctx, 1, otelmetric.WithAttributes(attribute.String("k", "a")))
		if sc.slowCb {
			_, _ = mp.Meter("m", otelmetric.WithInstrumentationVersion("v1")).Int64ObservableGauge("level", otelmetric.WithInt64Callback(func(_ context.Context, o otelmetric.Int64Observer) error {
				sched.Yield("slow callback", &reg)
				o.Observe(42)
				return nil
			}))
		}
		type out struct {
			scrapes  [][]string
			err      error
			twoHelps string
		}
		outs := make([]out, len(sc.threads))
		var wg vsync.WaitGroup
		wg.Add(len(sc.threads))
		for ti, ops := range sc.threads {
			sched.Go(func() {
				defer wg.Done()
				for _, op := range ops {
					switch op {
					case "Scrape":
						s, err := c18cScrape(reg.c)
						if err != nil {
							outs[ti].err = err
						}
						outs[ti].scrapes = append(outs[ti].scrapes, s)
					case "ScrapeH": // a scrape judged on its own: one HELP per family, whatever other scrapes are doing
						s, helps, err := c18cScrapeH(reg.c)
						if err != nil {
							outs[ti].err = err
						}
						outs[ti].scrapes = append(outs[ti].scrapes, s)
						var fams []string
						for f := range helps {
							fams = append(fams, f)
						}
						sort.Strings(fams)
						for _, f := range fams {
							if len(helps[f]) > 1 {
								outs[ti].twoHelps = fmt.Sprintf("family %s is exposed with HELP %q in one scrape", f, helps[f])
							}
						}
					case "Add":
						ctr.Add(ctx, 2, otelmetric.WithAttributes(attribute.String("k", "a")))
					case "Shutdown":
						_ = mp.Shutdown(ctx)
					}
				}
			})
		}
		wg.Wait()
		final, _ := c18cScrape(reg.c)
		// oracle: every scrape carries the same series set as the final one (values of the counter
		// may be 1 or 3 depending on whether the Add happened before it), with identical label sets
		strip := func(s []string) string {
			var o []string
			for _, l := range s {
				o = append(o, l[:strings.LastIndex(l, " ")])
			}
			return strings.Join(o, "\n")
		}
		for _, o := range outs {
			if o.err != nil {
				x.Fail("C18|scrape-error|concurrent", "metric could not be written: %v", o.err)
			}
			if o.twoHelps != "" {
				x.Fail("C18|help-conflict-within-one-scrape|concurrent first scrapes", "two scopes define the family with different descriptions and two first scrapes meet them in opposite orders: %s (a registry refuses such a scrape)", o.twoHelps)
			}
			for _, s := range o.scrapes {
				if withShutdown || sc.varying {
					continue // a scrape that overlaps the shutdown may be complete or cut short; it must not panic (judged by the engine)
				}
				if strip(s) != strip(final) {
					x.Fail("C18|inconsistent-series-under-concurrent-scrapes", "a concurrent scrape exposed\n%s\nbut a later quiescent scrape exposes\n%s", strings.Join(s, "\n"), strings.Join(final, "\n"))
				}
				for _, l := range s {
					if strings.HasPrefix(l, "req_total{") && !strings.HasSuffix(l, " 1") && !strings.HasSuffix(l, " 3") {
						x.Fail("C18|counter-value-under-concurrent-scrapes", "counter exposed as %q; recorded 1 then +2", l)
					}
				}
			}
		}
		// target_info carries the resource as configured, in every scrape that has one and for good
		// (a scrape cut short by a deadline of the collector's own making may be empty, not wrong)
		for _, o := range outs {
			for _, s := range append(append([][]string{}, o.scrapes...), final) {
				for _, l := range s {
					if strings.HasPrefix(l, "target_info{") && !strings.Contains(l, "=svc") {
						x.Fail("C18|target-info-without-the-resource", "target_info exposed as %q; the resource has service.name=svc, env=prod", l)
					}
				}
			}
		}
		for _, l := range final {
			if strings.HasPrefix(l, "req_total{") && !strings.HasSuffix(l, " 3") && hasAdd(sc) {
				x.Fail("C18|counter-value-under-concurrent-scrapes", "final scrape exposes %q; recorded 1 then +2", l)
			}
		}
		*res = strip(final)
		_ = mp.Shutdown(ctx)
	}
}

func hasAdd(sc c18cScn) bool {
	for _, t := range sc.threads {
		for _, op := range t {
			if op == "Add" {
				return true
			}
		}
	}
	return false
}

func c18cScenarios() []c18cScn {
	constLabels := func() []Option { return []Option{WithResourceAsConstantLabels(attribute.NewAllowKeysFilter("env"))} }
	return []c18cScn{
		{"K1-default-scrape-scrape-add", func() []Option { return nil }, [][]string{{"Scrape"}, {"Scrape"}, {"Add"}}, false, 0, false},
		{"K2-constlabels-scrape-scrape-add", constLabels, [][]string{{"Scrape"}, {"Scrape"}, {"Add"}}, false, 0, false},
		{"K3-constlabels-2scrapes-each", constLabels, [][]string{{"Scrape", "Scrape"}, {"Scrape"}}, false, 0, false},
		{"K5-scrape-vs-provider-shutdown", func() []Option { return nil }, [][]string{{"Scrape"}, {"Shutdown"}}, false, 0, false},
		{"K6-constlabels-scrape-scrape-shutdown", constLabels, [][]string{{"Scrape"}, {"Scrape"}, {"Shutdown"}}, false, 0, false},
		{"K7-first-scrapes-two-descriptions-opposite-scope-order", func() []Option { return []Option{WithProducer(&c18cProducer{})} }, [][]string{{"ScrapeH"}, {"ScrapeH"}}, false, 0, false},
		{"K4-noscope-notarget", func() []Option { return []Option{WithoutScopeInfo(), WithoutTargetInfo()} }, [][]string{{"Scrape"}, {"Scrape"}, {"Add"}}, false, 0, false},
		{"K8-scrape-from-before-the-family-existed-vs-first-scrape-that-sees-it", func() []Option { return []Option{WithProducer(&c18cLateProducer{})} }, [][]string{{"ScrapeH"}, {"ScrapeH"}}, true, 0, false},
		{"K9-slow-callback-two-scrapes-in-a-row", func() []Option { return nil }, [][]string{{"Scrape", "Scrape"}}, true, 1, true},
	}
}

func c18cRun(t *testing.T, unit string, race bool) {
	thorough := enum.Start("C18", "probe").Thorough()
	p := 2
	if thorough {
		p = 3
	}
	if race {
		p--
	}
	scs := c18cScenarios()
	var names []string
	for _, s := range scs {
		names = append(names, fmt.Sprintf("%s/P%d", s.name, p))
	}
	enum.Jobs(names, func(job string) {
		r := enum.Start("C18", unit)
		defer r.Finish()
		for _, s := range scs {
			if fmt.Sprintf("%s/P%d", s.name, p) != job {
				continue
			}
			r.Bound("concurrent_drivers", len(scs))
			r.Bound("concurrent_max_preemptions", p)
			r.Bound("race_build", race)
			var res string
			st := sched.Explore(r, sched.Config{Name: job, MaxP: p, MaxE: s.e, MaxSteps: 6000, Body: c18cBody(s, &res), Outcome: func(*sched.Exec) string { return res }})
			if race {
				r.Count("race_build_executions", st.Execs)
			}
			t.Logf("%s: execs=%d states=%d deadlocks=%d outcomes=%d complete=%v keys=%v", job, st.Execs, st.States, st.Deadlocks, len(st.Outcomes), st.Complete, r.Keys())
		}
	})
}

func TestVerifC18Conc(t *testing.T)     { c18cRun(t, "scrape", false) }
func TestVerifC18ConcRace(t *testing.T) { c18cRun(t, "scrape-race", sched.RaceEnabled) }
