package prometheus

// C18 (unit "points") — every data point of an instrument is converted on its own. The
// exporter gets its input from a metric.Producer that hands it hand-built aggregations, so the
// ORDER of the data points is decided by the enumeration (the SDK reports them in map order):
// every word of <= 3 data points over a per-kind alphabet (valid points of several shapes, empty
// points, points Prometheus cannot represent), each point under its own attribute set. Judged
// by the same judge as the "names" unit: every representable point is exposed exactly, whatever
// came before it in the same metric.

import (
	"context"
	"fmt"
	"runtime/debug"
	"sort"
	"strings"
	"testing"

	"github.com/prometheus/client_golang/prometheus"
	"github.com/prometheus/common/model"

	"go.opentelemetry.io/otel"
	"go.opentelemetry.io/otel/attribute"
	"go.opentelemetry.io/otel/sdk/instrumentation"
	"go.opentelemetry.io/otel/sdk/metric"
	"go.opentelemetry.io/otel/sdk/metric/metricdata"
	"go.opentelemetry.io/otel/sdk/resource"
	"verif/mc/enum"
)

type c18Producer struct{ sm []metricdata.ScopeMetrics }

func (p *c18Producer) Produce(context.Context) ([]metricdata.ScopeMetrics, error) { return p.sm, nil }

// c18Point is one letter: class for finding keys and a builder appending the point to the
// aggregation under construction.
type c18Point struct {
	class string
	add   func(agg metricdata.Aggregation, attrs attribute.Set) metricdata.Aggregation
}

type c18PointKind struct {
	id      string
	counter bool
	empty   func() metricdata.Aggregation
	letters []c18Point
}

func c18Expo(scale int32, zc uint64, posOff int32, pos []uint64, negOff int32, neg []uint64, sum float64) func(metricdata.Aggregation, attribute.Set) metricdata.Aggregation {
	return func(agg metricdata.Aggregation, attrs attribute.Set) metricdata.Aggregation {
		h := agg.(metricdata.ExponentialHistogram[float64])
		n := zc
		for _, c := range pos {
			n += c
		}
		for _, c := range neg {
			n += c
		}
		h.DataPoints = append(h.DataPoints, metricdata.ExponentialHistogramDataPoint[float64]{
			Attributes: attrs, Count: n, Sum: sum, Scale: scale, ZeroCount: zc,
			PositiveBucket: metricdata.ExponentialBucket{Offset: posOff, Counts: append([]uint64{}, pos...)},
			NegativeBucket: metricdata.ExponentialBucket{Offset: negOff, Counts: append([]uint64{}, neg...)},
		})
		return h
	}
}

func c18Hist(counts []uint64, sum float64) func(metricdata.Aggregation, attribute.Set) metricdata.Aggregation {
	return func(agg metricdata.Aggregation, attrs attribute.Set) metricdata.Aggregation {
		h := agg.(metricdata.Histogram[float64])
		n := uint64(0)
		for _, c := range counts {
			n += c
		}
		h.DataPoints = append(h.DataPoints, metricdata.HistogramDataPoint[float64]{
			Attributes: attrs, Count: n, Sum: sum, Bounds: []float64{1, 5}, BucketCounts: append([]uint64{}, counts...),
		})
		return h
	}
}

func c18SumPt(v int64) func(metricdata.Aggregation, attribute.Set) metricdata.Aggregation {
	return func(agg metricdata.Aggregation, attrs attribute.Set) metricdata.Aggregation {
		s := agg.(metricdata.Sum[int64])
		s.DataPoints = append(s.DataPoints, metricdata.DataPoint[int64]{Attributes: attrs, Value: v})
		return s
	}
}

func c18GaugePt(v float64) func(metricdata.Aggregation, attribute.Set) metricdata.Aggregation {
	return func(agg metricdata.Aggregation, attrs attribute.Set) metricdata.Aggregation {
		g := agg.(metricdata.Gauge[float64])
		g.DataPoints = append(g.DataPoints, metricdata.DataPoint[float64]{Attributes: attrs, Value: v})
		return g
	}
}

var c18PointKinds = []c18PointKind{
	{id: "exponential_histogram", empty: func() metricdata.Aggregation {
		return metricdata.ExponentialHistogram[float64]{Temporality: metricdata.CumulativeTemporality}
	}, letters: []c18Point{
		{"scale 0, two positive buckets", c18Expo(0, 0, 0, []uint64{1, 2}, 0, nil, 7)},
		{c18Unrepresentable + "exponential histogram data point at a scale above 8", c18Expo(20, 0, 1386000, []uint64{2}, 0, nil, 5.1)},
		{"scale 2, both signs, a gap and a zero count", c18Expo(2, 1, -3, []uint64{1, 0, 1}, 1, []uint64{2}, -1.5)},
		{"scale -4, one bucket", c18Expo(-4, 0, 0, []uint64{4}, 0, nil, 100)},
		{"no measurements", c18Expo(3, 0, 0, nil, 0, nil, 0)},
		{c18Unrepresentable + "exponential histogram data point at a scale below -4", c18Expo(-6, 0, -1, []uint64{1, 1}, 0, nil, 1e30)},
		{"scale 8, negative buckets only", c18Expo(8, 0, 0, nil, -300, []uint64{3, 0, 0, 1}, -2.2)},
	}},
	{id: "histogram", empty: func() metricdata.Aggregation {
		return metricdata.Histogram[float64]{Temporality: metricdata.CumulativeTemporality}
	}, letters: []c18Point{
		{"counts in the outer buckets", c18Hist([]uint64{1, 0, 2}, 12)},
		{"no measurements", c18Hist([]uint64{0, 0, 0}, 0)},
		{"counts in the middle bucket", c18Hist([]uint64{0, 3, 0}, 9)},
	}},
	{id: "counter", counter: true, empty: func() metricdata.Aggregation {
		return metricdata.Sum[int64]{Temporality: metricdata.CumulativeTemporality, IsMonotonic: true}
	}, letters: []c18Point{{"value 1", c18SumPt(1)}, {"value 0", c18SumPt(0)}, {"value 7", c18SumPt(7)}}},
	{id: "updown_counter", empty: func() metricdata.Aggregation {
		return metricdata.Sum[int64]{Temporality: metricdata.CumulativeTemporality}
	}, letters: []c18Point{{"value -2", c18SumPt(-2)}, {"value 0", c18SumPt(0)}, {"value 5", c18SumPt(5)}}},
	{id: "gauge", empty: func() metricdata.Aggregation { return metricdata.Gauge[float64]{} },
		letters: []c18Point{{"value 1.5", c18GaugePt(1.5)}, {"value -3", c18GaugePt(-3)}, {"value 0", c18GaugePt(0)}}},
}

var c18PointOpts = []c18Opt{{id: "default"}, {id: "WithoutScopeInfo", noScope: true}, {id: "WithResourceAsConstantLabels", resConstant: true}}

func (c *c18Run) onePoints(kind c18PointKind, opt c18Opt, word []int) {
	r := c.r
	var sets []c18Set
	agg := kind.empty()
	for pos, li := range word {
		l := kind.letters[li]
		kvs := []attribute.KeyValue{attribute.Int("pos", pos)}
		sets = append(sets, c18Set{class: l.class, kvs: kvs})
		agg = l.add(agg, attribute.NewSet(kvs...))
	}
	var desc []string
	for _, s := range sets {
		desc = append(desc, s.class)
	}
	cas := c18Case{Name: "m", Unit: "", Kind: "points/" + kind.id, Opt: opt.id, Scheme: "utf8", Sets: desc}

	saved := model.NameValidationScheme                   //nolint:staticcheck
	model.NameValidationScheme = model.UTF8Validation     //nolint:staticcheck
	defer func() { model.NameValidationScheme = saved }() //nolint:staticcheck
	c.handled = c.handled[:0]
	k := c18Kind{id: "points/" + kind.id, counter: kind.counter}
	enum.Guard("process-death|scrape|points|"+kind.id, cas, r.Here())
	defer enum.Unguard()

	prod := &c18Producer{sm: []metricdata.ScopeMetrics{{
		Scope:   instrumentation.Scope{Name: c18ScopeName, Version: c18ScopeVersion, Attributes: attribute.NewSet(c18ScopeKVs...)},
		Metrics: []metricdata.Metrics{{Name: "m", Description: "d", Data: agg}},
	}}}
	reg := &capturingRegisterer{Registry: prometheus.NewRegistry()}
	exp, err := New(append([]Option{WithRegisterer(reg), WithProducer(prod)}, opt.options()...)...)
	if err != nil || reg.got == nil {
		r.FailHere("new|exporter construction failed", cas, "New: %v (collector registered: %v)", err, reg.got != nil)
		return
	}
	mp := metric.NewMeterProvider(metric.WithReader(exp), metric.WithResource(resource.NewSchemaless(c18ResourceKVs...)))
	defer func() { _ = mp.Shutdown(context.Background()) }()

	pts, mono, err := refPoints(prod.sm[0].Metrics[0])
	if err != nil || mono != kind.counter || len(pts) != len(word) {
		r.FailHere("harness|reference points", cas, "err=%v monotonic=%v points=%d", err, mono, len(pts))
		return
	}
	// points Prometheus cannot represent (native histogram schemas are -4..8) are expected to be
	// left out -- after the reference merged the scale-above-8 ones down, see refNative; a point
	// below -4 has no representation. Both are judged like every other point (missing = finding
	// under their own class), so that the recorded defect stays separate from any other loss.
	var scrapes []scrape
	for i, what := range []string{"first scrape (Collect called directly, output gathered by a fresh Registry)", "second scrape (Collect called directly, output gathered by a fresh Registry)"} {
		r.Eval()
		ms, panicked := collectDirect(reg.got)
		if panicked != nil {
			r.FailHere("panic|Collect|points|"+kind.id, cas, "collector.Collect panicked on scrape %d: %v", i+1, panicked)
			return
		}
		rr := prometheus.NewRegistry()
		if err := rr.Register(replayCollector(ms)); err != nil {
			r.FailHere("harness|replay registry", cas, "%v", err)
			return
		}
		f, e := rr.Gather()
		scrapes = append(scrapes, scrape{what, f, e})
	}
	r.Eval()
	f3, e3 := reg.Gather()
	scrapes = append(scrapes, scrape{"third scrape (Registry.Gather on the exporter's registry)", f3, e3})

	wantNames := refNames("m", "", refNaming{counter: kind.counter})
	canon := make([]string, len(scrapes))
	for i, s := range scrapes {
		canon[i] = canonFamilies(s.fams)
		same := false
		for j := 0; j < i; j++ {
			same = same || (canon[j] == canon[i] && (scrapes[j].err == nil) == (s.err == nil))
		}
		if !same {
			c.judge(s, cas, k, opt, false, sets, pts, wantNames, "plain name", "no unit")
		}
	}
	for i, s := range scrapes[1:] {
		if canon[i+1] != canon[0] {
			r.FailHere("determinism|consecutive scrapes differ|"+k.id, cas, "first scrape:\n%s\n%s:\n%s", canon[0], s.what, canon[i+1])
			break
		}
	}
	r.Outcome(canon[2])
	r.Sample(func() any { return map[string]any{"case": cas, "exposed": strings.Split(canon[2], "\n")} })
}

// twoScopes: the same instrument name (same kind, same unit) in two instrumentation scopes, in
// the order the enumeration decides, with every pair of descriptions over {"", x, y}. Prometheus
// allows one help text per family; whatever the exporter makes of the two descriptions, the
// registry has to accept the result and both series (told apart by otel_scope_name) carry the
// aggregated values.
func (c *c18Run) twoScopes(kind c18PointKind, descA, descB string) {
	r := c.r
	dcls := func(d string) string {
		if d == "" {
			return "empty"
		}
		return "non-empty"
	}
	class := "first description " + dcls(descA) + ", second " + dcls(descB)
	if descA == descB {
		class = "equal descriptions (" + dcls(descA) + ")"
	}
	cas := map[string]any{"kind": kind.id, "scopes_in_order": []string{"sa", "sb"}, "instrument_name": "m", "descriptions_in_order": []string{descA, descB}}
	saved := model.NameValidationScheme                   //nolint:staticcheck
	model.NameValidationScheme = model.UTF8Validation     //nolint:staticcheck
	defer func() { model.NameValidationScheme = saved }() //nolint:staticcheck
	c.handled = c.handled[:0]
	enum.Guard("process-death|scrape|two-scopes|"+kind.id, cas, r.Here())
	defer enum.Unguard()

	mk := func(scope, desc string, letter int) metricdata.ScopeMetrics {
		agg := kind.letters[letter].add(kind.empty(), attribute.NewSet(attribute.String("k", "v")))
		return metricdata.ScopeMetrics{Scope: instrumentation.Scope{Name: scope}, Metrics: []metricdata.Metrics{{Name: "m", Description: desc, Data: agg}}}
	}
	prod := &c18Producer{sm: []metricdata.ScopeMetrics{mk("sa", descA, 0), mk("sb", descB, 2)}}
	reg := &capturingRegisterer{Registry: prometheus.NewRegistry()}
	exp, err := New(WithRegisterer(reg), WithProducer(prod))
	if err != nil || reg.got == nil {
		r.FailHere("new|exporter construction failed", cas, "New: %v", err)
		return
	}
	mp := metric.NewMeterProvider(metric.WithReader(exp), metric.WithResource(resource.NewSchemaless(c18ResourceKVs...)))
	defer func() { _ = mp.Shutdown(context.Background()) }()
	want := map[string]refValue{}
	for _, sm := range prod.sm {
		pts, _, err := refPoints(sm.Metrics[0])
		if err != nil || len(pts) != 1 {
			r.FailHere("harness|reference points", cas, "%v", err)
			return
		}
		want[sm.Scope.Name] = pts[0].val
	}
	for i := 0; i < 2; i++ {
		r.Eval()
		fams, err := reg.Gather()
		what := []string{"first scrape", "second scrape"}[i]
		if err != nil {
			r.FailHere("two-scopes|gather-error|"+kind.id+"|"+class, cas, "%s: Gather returned %v (errors handled by the exporter: %q)", what, err, c.handled)
			return
		}
		got := map[string]refValue{}
		helps := map[string]bool{}
		for _, f := range fams {
			if f.GetName() == targetInfoMetricName || f.GetName() == scopeInfoMetricName {
				continue
			}
			helps[f.GetHelp()] = true
			for _, m := range f.Metric {
				scope := ""
				for _, lp := range m.Label {
					if lp.GetName() == "otel_scope_name" {
						scope = lp.GetValue()
					}
				}
				if _, dup := got[scope]; dup {
					r.FailHere("two-scopes|series twice|"+kind.id, cas, "%s: two series for scope %q", what, scope)
				}
				_, got[scope] = actualValue(f, m)
			}
		}
		for _, sc := range []string{"sa", "sb"} {
			g, ok := got[sc]
			w := want[sc]
			if !ok {
				r.FailHere("two-scopes|series missing|"+kind.id+"|"+class, cas, "%s: no series of scope %s (errors handled by the exporter: %q)", what, sc, c.handled)
				continue
			}
			if g.typ != w.typ || !sameFloat(g.value, w.value) || g.count != w.count || !sameFloat(g.sum, w.sum) || g.buckets != w.buckets {
				r.FailHere("two-scopes|value|"+kind.id, cas, "%s: scope %s exposed as %+v, aggregated %+v", what, sc, g, w)
			}
		}
		if len(got) != 2 {
			r.FailHere("two-scopes|unexpected series|"+kind.id, cas, "%s: %d series for two instruments", what, len(got))
		}
		r.Outcome(fmt.Sprint(kind.id, class, len(helps)))
	}
	r.Sample(func() any { return cas })
}

// twoKinds: two instruments with the SAME name and unit but (possibly) different kinds, in two
// scopes in the order the enumeration decides, scraped three times. The family each kind gets is
// the reference name (a counter ends in _total) with the Prometheus type of the kind. Where the two
// families differ, both are exposed with their values on every scrape; where they coincide in name
// and type, both series are (told apart by otel_scope_name); where they coincide in name but not
// in type Prometheus can hold only one: the exporter documents that the first-seen definition is
// kept -- that instrument must stay exposed, faithfully, on EVERY scrape (the second is not judged).
func (c *c18Run) twoKinds(ka, kb c18PointKind) {
	r := c.r
	cas := map[string]any{"instrument_name": "m", "kinds_in_order": []string{ka.id, kb.id}, "scopes_in_order": []string{"sa", "sb"}}
	saved := model.NameValidationScheme                   //nolint:staticcheck
	model.NameValidationScheme = model.UTF8Validation     //nolint:staticcheck
	defer func() { model.NameValidationScheme = saved }() //nolint:staticcheck
	c.handled = c.handled[:0]
	enum.Guard("process-death|scrape|two-kinds|"+ka.id+"+"+kb.id, cas, r.Here())
	defer enum.Unguard()

	mk := func(scope string, kind c18PointKind, letter int) metricdata.ScopeMetrics {
		agg := kind.letters[letter].add(kind.empty(), attribute.NewSet(attribute.String("k", "v")))
		return metricdata.ScopeMetrics{Scope: instrumentation.Scope{Name: scope}, Metrics: []metricdata.Metrics{{Name: "m", Description: "d", Data: agg}}}
	}
	prod := &c18Producer{sm: []metricdata.ScopeMetrics{mk("sa", ka, 0), mk("sb", kb, 2)}}
	reg := &capturingRegisterer{Registry: prometheus.NewRegistry()}
	exp, err := New(WithRegisterer(reg), WithProducer(prod))
	if err != nil || reg.got == nil {
		r.FailHere("new|exporter construction failed", cas, "New: %v", err)
		return
	}
	mp := metric.NewMeterProvider(metric.WithReader(exp), metric.WithResource(resource.NewSchemaless(c18ResourceKVs...)))
	defer func() { _ = mp.Shutdown(context.Background()) }()
	type wantT struct {
		fam string
		val refValue
	}
	var want [2]wantT
	for i, kind := range []c18PointKind{ka, kb} {
		pts, _, err := refPoints(prod.sm[i].Metrics[0])
		if err != nil || len(pts) != 1 {
			r.FailHere("harness|reference points", cas, "%v", err)
			return
		}
		names := refNames("m", "", refNaming{counter: kind.counter})
		want[i] = wantT{names[0], pts[0].val}
	}
	promType := func(v refValue) string {
		if v.typ == "native-histogram" {
			return "histogram"
		}
		return v.typ
	}
	conflict := want[0].fam == want[1].fam && promType(want[0].val) != promType(want[1].val)
	class := "different families"
	switch {
	case conflict:
		class = "same family name, different types"
	case want[0].fam == want[1].fam:
		class = "same family"
	}
	for i := 0; i < 3; i++ {
		r.Eval()
		fams, err := reg.Gather()
		what := []string{"first scrape", "second scrape", "third scrape"}[i]
		if err != nil {
			r.FailHere("two-kinds|gather-error|"+class, cas, "%s: Gather returned %v (errors handled by the exporter: %q)", what, err, c.handled)
			return
		}
		got := map[string]refValue{} // family/scope -> value
		for _, f := range fams {
			for _, m := range f.Metric {
				for _, lp := range m.Label {
					if lp.GetName() == "otel_scope_name" && f.GetName() != scopeInfoMetricName {
						_, got[f.GetName()+"/"+lp.GetValue()] = actualValue(f, m)
					}
				}
			}
		}
		for j, sc := range []string{"sa", "sb"} {
			if conflict && j == 1 {
				continue // cannot be represented next to the first-seen definition
			}
			g, ok := got[want[j].fam+"/"+sc]
			w := want[j].val
			if !ok {
				r.FailHere("two-kinds|series missing|"+class+"|"+what, cas, "%s: no series %s{otel_scope_name=%q} (exposed: %v; errors handled by the exporter: %q)", what, want[j].fam, sc, keysOf(got), c.handled)
				continue
			}
			if g.typ != w.typ || !sameFloat(g.value, w.value) || g.count != w.count || !sameFloat(g.sum, w.sum) || g.buckets != w.buckets {
				r.FailHere("two-kinds|value|"+class, cas, "%s: %s{otel_scope_name=%q} exposed as %+v, aggregated %+v", what, want[j].fam, sc, g, w)
			}
		}
		r.Outcome(fmt.Sprint(ka.id, kb.id, class, len(got)))
	}
	r.Sample(func() any { return cas })
}

// badResource: a resource with an attribute that cannot become a label (the reserved "__"
// prefix; an invalid UTF-8 key): target_info cannot be built. Scrapes -- the first one above all
// -- must not panic, the instrument's series and otel_scope_info are exposed as always, and
// target_info is simply absent.
func (c *c18Run) badResource(kind c18PointKind, badKey string, opt c18Opt) {
	r := c.r
	cas := map[string]any{"kind": kind.id, "resource_attribute_key": show18(badKey), "option": opt.id}
	saved := model.NameValidationScheme                   //nolint:staticcheck
	model.NameValidationScheme = model.UTF8Validation     //nolint:staticcheck
	defer func() { model.NameValidationScheme = saved }() //nolint:staticcheck
	c.handled = c.handled[:0]
	enum.Guard("process-death|scrape|bad-resource|"+kind.id, cas, r.Here())
	defer enum.Unguard()
	agg := kind.letters[0].add(kind.empty(), attribute.NewSet(attribute.String("k", "v")))
	prod := &c18Producer{sm: []metricdata.ScopeMetrics{{Scope: instrumentation.Scope{Name: "sa"}, Metrics: []metricdata.Metrics{{Name: "m", Description: "d", Data: agg}}}}}
	reg := &capturingRegisterer{Registry: prometheus.NewRegistry()}
	exp, err := New(append([]Option{WithRegisterer(reg), WithProducer(prod)}, opt.options()...)...)
	if err != nil || reg.got == nil {
		r.FailHere("new|exporter construction failed", cas, "New: %v", err)
		return
	}
	mp := metric.NewMeterProvider(metric.WithReader(exp), metric.WithResource(resource.NewSchemaless(attribute.String(badKey, "1"), attribute.String("service.name", "svc"))))
	defer func() { _ = mp.Shutdown(context.Background()) }()
	pts, _, _ := refPoints(prod.sm[0].Metrics[0])
	wantFam := refNames("m", "", refNaming{counter: kind.counter})[0]
	for i := 0; i < 3; i++ {
		what := []string{"first scrape", "second scrape", "third scrape"}[i]
		r.Eval()
		ms, panicked := collectDirect(reg.got)
		if panicked != nil {
			r.FailHere("bad-resource|panic|Collect|"+what, cas, "%s: collector.Collect panicked: %v", what, panicked)
			return
		}
		for _, m := range ms {
			if m == nil {
				r.FailHere("bad-resource|nil metric sent to the registry|"+what, cas, "%s: Collect sent a nil prometheus.Metric (Registry.Gather dereferences it in a goroutine nobody can recover)", what)
				return
			}
		}
		rr := prometheus.NewRegistry()
		if err := rr.Register(replayCollector(ms)); err != nil {
			r.FailHere("harness|replay registry", cas, "%v", err)
			return
		}
		fams, err := rr.Gather()
		if err != nil {
			r.FailHere("bad-resource|gather-error", cas, "%s: %v (errors handled by the exporter: %q)", what, err, c.handled)
			return
		}
		found, target, scope := false, false, false
		for _, f := range fams {
			switch f.GetName() {
			case targetInfoMetricName:
				target = true
			case scopeInfoMetricName:
				scope = true
			case wantFam:
				if len(f.Metric) == 1 {
					if _, v := actualValue(f, f.Metric[0]); v == pts[0].val {
						found = true
					}
				}
			}
		}
		if !found {
			r.FailHere("bad-resource|series missing or wrong|"+kind.id, cas, "%s: %s is not exposed with the aggregated value (errors handled by the exporter: %q)", what, wantFam, c.handled)
		}
		if target {
			r.FailHere("bad-resource|target_info exposed", cas, "%s: target_info is exposed although the resource cannot be turned into labels", what)
		}
		if scope == opt.noScope {
			r.FailHere("bad-resource|otel_scope_info", cas, "%s: otel_scope_info present=%v, WithoutScopeInfo=%v", what, scope, opt.noScope)
		}
	}
	r.Outcome(fmt.Sprint(kind.id, badKey, opt.id))
	r.Sample(func() any { return cas })
}

// bystander: something the exporter cannot expose -- a metric whose Data it does not know, a data
// point with an attribute value that is not valid UTF-8, a scope whose name is not valid UTF-8 --
// comes BEFORE a perfectly valid one in what the reader collected. The scrape must not panic, the
// registry accepts the result, and the valid instrument / point / scope is exposed with the
// aggregated value on every scrape (the second and third go through the exporter's caches).
func (c *c18Run) bystander(kind c18PointKind, variant string) {
	r := c.r
	cas := map[string]any{"kind": kind.id, "variant": variant}
	saved := model.NameValidationScheme                   //nolint:staticcheck
	model.NameValidationScheme = model.UTF8Validation     //nolint:staticcheck
	defer func() { model.NameValidationScheme = saved }() //nolint:staticcheck
	c.handled = c.handled[:0]
	enum.Guard("process-death|scrape|bystander|"+kind.id, cas, r.Here())
	defer enum.Unguard()
	good := kind.letters[0].add(kind.empty(), attribute.NewSet(attribute.String("k", "v")))
	valid := metricdata.Metrics{Name: "m", Description: "d", Data: good}
	var sm []metricdata.ScopeMetrics
	switch variant {
	case "unknown-data-first":
		sm = []metricdata.ScopeMetrics{{Scope: instrumentation.Scope{Name: "sa"}, Metrics: []metricdata.Metrics{{Name: "u", Description: "d"}, valid}}}
	case "bad-value-point-first":
		both := kind.letters[0].add(kind.empty(), attribute.NewSet(attribute.String("k", "bad\xffvalue")))
		both = kind.letters[0].add(both, attribute.NewSet(attribute.String("k", "v")))
		sm = []metricdata.ScopeMetrics{{Scope: instrumentation.Scope{Name: "sa"}, Metrics: []metricdata.Metrics{{Name: "m", Description: "d", Data: both}}}}
	case "bad-scope-first":
		sm = []metricdata.ScopeMetrics{
			{Scope: instrumentation.Scope{Name: "bad\xffscope"}, Metrics: []metricdata.Metrics{{Name: "other", Description: "d", Data: good}}},
			{Scope: instrumentation.Scope{Name: "sa"}, Metrics: []metricdata.Metrics{valid}},
		}
	}
	prod := &c18Producer{sm: sm}
	reg := &capturingRegisterer{Registry: prometheus.NewRegistry()}
	exp, err := New(WithRegisterer(reg), WithProducer(prod))
	if err != nil || reg.got == nil {
		r.FailHere("new|exporter construction failed", cas, "New: %v", err)
		return
	}
	mp := metric.NewMeterProvider(metric.WithReader(exp), metric.WithResource(resource.NewSchemaless(c18ResourceKVs...)))
	defer func() { _ = mp.Shutdown(context.Background()) }()
	pts, _, _ := refPoints(valid)
	wantFam := refNames("m", "", refNaming{counter: kind.counter})[0]
	for i := 0; i < 3; i++ {
		what := []string{"first scrape", "second scrape", "third scrape"}[i]
		r.Eval()
		ms, panicked := collectDirect(reg.got)
		if panicked != nil {
			r.FailHere("bystander|panic|Collect|"+variant, cas, "%s: collector.Collect panicked: %v", what, panicked)
			return
		}
		for _, m := range ms {
			if m == nil {
				r.FailHere("bystander|nil metric sent to the registry|"+variant, cas, "%s: Collect sent a nil prometheus.Metric", what)
				return
			}
		}
		rr := prometheus.NewRegistry()
		if err := rr.Register(replayCollector(ms)); err != nil {
			r.FailHere("harness|replay registry", cas, "%v", err)
			return
		}
		fams, err := rr.Gather()
		if err != nil {
			r.FailHere("bystander|gather-error|"+variant, cas, "%s: %v (errors handled by the exporter: %q)", what, err, c.handled)
			return
		}
		found := false
		for _, f := range fams {
			if f.GetName() != wantFam {
				continue
			}
			for _, m := range f.Metric {
				kv := false
				for _, l := range m.Label {
					kv = kv || (l.GetName() == "k" && l.GetValue() == "v")
				}
				if _, v := actualValue(f, m); kv && v == pts[0].val {
					found = true
				}
			}
		}
		if !found {
			r.FailHere("bystander|series missing or wrong|"+variant+"|"+kind.id, cas, "%s: %s{k=\"v\"} of scope sa is not exposed with the aggregated value although only its neighbour cannot be exposed (errors handled by the exporter: %q)", what, wantFam, c.handled)
		}
	}
	r.Outcome(fmt.Sprint(kind.id, variant))
	r.Sample(func() any { return cas })
}

func show18(s string) string { return fmt.Sprintf("%q", s) }

func keysOf(m map[string]refValue) []string {
	var ks []string
	for k := range m {
		ks = append(ks, k)
	}
	sort.Strings(ks)
	return ks
}

func TestVerifC18Points(t *testing.T) {
	var jobs []string
	for _, k := range c18PointKinds {
		jobs = append(jobs, "points/"+k.id)
	}
	jobs = append(jobs, "two-scopes", "two-kinds", "bad-resource", "bystander")
	enum.Jobs(jobs, func(job string) {
		r := enum.Start("C18", "points")
		defer r.Finish()
		run := &c18Run{r: r}
		debug.SetGCPercent(800)
		otel.SetErrorHandler(otel.ErrorHandlerFunc(func(err error) {
			if len(run.handled) < 8 {
				run.handled = append(run.handled, err.Error())
			}
		}))
		maxLen := enum.Pick(r, 3, 4)
		r.Bound("points_max_data_points_per_metric", maxLen)
		r.Section(job)
		if job == "bad-resource" {
			keys := []string{"__meta.shard", "bad\xffkey"}
			r.Bound("bad_resource_keys", []string{show18(keys[0]), show18(keys[1])})
			for _, kind := range c18PointKinds {
				for _, k := range keys {
					for _, opt := range []c18Opt{{id: "default"}, {id: "WithoutScopeInfo", noScope: true}} {
						if r.Want() {
							run.badResource(kind, k, opt)
						}
					}
				}
			}
			return
		}
		if job == "bystander" {
			vs := []string{"unknown-data-first", "bad-value-point-first", "bad-scope-first"}
			r.Bound("bystander_variants", vs)
			for _, kind := range c18PointKinds {
				for _, v := range vs {
					if r.Want() {
						run.bystander(kind, v)
					}
				}
			}
			return
		}
		if job == "two-kinds" {
			r.Bound("two_kinds_ordered_pairs", len(c18PointKinds)*len(c18PointKinds))
			r.Bound("two_kinds_scrapes", 3)
			for _, a := range c18PointKinds {
				for _, b := range c18PointKinds {
					if r.Want() {
						run.twoKinds(a, b)
					}
				}
			}
			return
		}
		if job == "two-scopes" {
			descs := []string{"", "x", "y"}
			r.Bound("two_scopes_descriptions", descs)
			for _, kind := range c18PointKinds {
				for _, a := range descs {
					for _, b := range descs {
						if r.Want() {
							run.twoScopes(kind, a, b)
						}
					}
				}
			}
			return
		}
		for _, kind := range c18PointKinds {
			if "points/"+kind.id != job {
				continue
			}
			var classes []string
			for _, l := range kind.letters {
				classes = append(classes, l.class)
			}
			r.Bound("points_alphabet/"+kind.id, classes)
			r.Bound("points_options", fmt.Sprint(len(c18PointOpts)))
			for L := 1; L <= maxLen; L++ {
				word := make([]int, L)
				for {
					for _, opt := range c18PointOpts {
						if r.Expired() {
							return
						}
						if r.Want() {
							run.onePoints(kind, opt, word)
						}
					}
					i := L - 1
					for i >= 0 {
						word[i]++
						if word[i] < len(kind.letters) {
							break
						}
						word[i] = 0
						i--
					}
					if i < 0 {
						break
					}
				}
			}
		}
	})
}
