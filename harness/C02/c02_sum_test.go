package metric

// C02 — metric sums are conserved under concurrent recording and collection. The real SDK
// (instrumented sdk/metric and internal/aggregate) runs under the controlled scheduler:
// recorder threads Add to counters while collector threads Collect a delta and a cumulative
// ManualReader, or a PeriodicReader's run loop / ForceFlush / Shutdown export in the background.

import (
	"context"
	"errors"
	"fmt"
	"os"
	"sort"
	"strings"
	"testing"

	"verif/mc/enum"
	"verif/mc/sched"
	"verif/mc/vsync"

	"go.opentelemetry.io/otel/attribute"
	api "go.opentelemetry.io/otel/metric"
	"go.opentelemetry.io/otel/sdk/metric/metricdata"
)

// values are distinct powers of three: in every collected sum each base-3 digit must be 0 or 1
// (a 2 is a double count) and over all delta collections every digit must add up to exactly 1.
var c02Vals = []int64{1, 3, 9, 27, 81, 243}

type c02Done struct {
	v    int64
	a    string
	step int
}

type c02Point struct {
	attr  string
	val   float64
	start int64
	time  int64
}

// c02Read extracts the sum points of instrument "c" from a collection.
func c02Read(rm *metricdata.ResourceMetrics) (pts []c02Point, monotonic bool, temp metricdata.Temporality) {
	for _, sm := range rm.ScopeMetrics {
		for _, m := range sm.Metrics {
			if m.Name != "c" {
				continue
			}
			switch d := m.Data.(type) {
			case metricdata.Sum[int64]:
				monotonic, temp = d.IsMonotonic, d.Temporality
				for _, dp := range d.DataPoints {
					v, _ := dp.Attributes.Value("k")
					pts = append(pts, c02Point{v.AsString(), float64(dp.Value), dp.StartTime.UnixNano(), dp.Time.UnixNano()})
				}
			case metricdata.Sum[float64]:
				monotonic, temp = d.IsMonotonic, d.Temporality
				for _, dp := range d.DataPoints {
					v, _ := dp.Attributes.Value("k")
					pts = append(pts, c02Point{v.AsString(), dp.Value, dp.StartTime.UnixNano(), dp.Time.UnixNano()})
				}
			}
		}
	}
	sort.Slice(pts, func(i, j int) bool { return pts[i].attr < pts[j].attr })
	return
}

type c02Exp struct {
	cum   bool // the periodic reader's exporter asks for cumulative temporality
	x     *sched.Exec
	colls [][]c02Point
	sd    int
	errs  int
	after bool
}

func (e *c02Exp) Temporality(InstrumentKind) metricdata.Temporality {
	if e.cum {
		return metricdata.CumulativeTemporality
	}
	return metricdata.DeltaTemporality
}
func (e *c02Exp) Aggregation(k InstrumentKind) Aggregation { return DefaultAggregationSelector(k) }
func (e *c02Exp) Export(_ context.Context, rm *metricdata.ResourceMetrics) error {
	if e.sd > 0 {
		e.x.Fail("C02|export-after-exporter-shutdown", "periodic reader exported after shutting its exporter down")
	}
	pts, _, _ := c02Read(rm) // copied out: rm is pooled and reused by the reader
	e.colls = append(e.colls, pts)
	sched.Yield("metric-export-in-flight", e)
	return nil
}
func (e *c02Exp) ForceFlush(context.Context) error { return nil }
func (e *c02Exp) Shutdown(context.Context) error   { e.sd++; return nil }

type c02Scn struct {
	name      string
	kind      string     // "int", "float", "updown"
	rec       [][]string // recorder threads: ops "A" / "B" (attribute set) — values assigned in order
	collects  [][]string // collector threads: ops "D" collect delta, "C" collect cumulative, "F" periodic ForceFlush
	periodic  bool
	twoScopes bool // attribute set B is recorded on the same-named instrument of a second meter (scope)
	cumExport bool // the periodic reader exports cumulative values: what the exporter holds last is the total, and it never goes down
	failingCb bool // an observable gauge whose callback fails while op "Ff" (a ForceFlush) runs: that collection reports data AND an error
}

func c02Body(sc c02Scn, res *string) func(x *sched.Exec) {
	return func(x *sched.Exec) {
		ctx := context.Background()
		delta := NewManualReader(WithTemporalitySelector(func(InstrumentKind) metricdata.Temporality { return metricdata.DeltaTemporality }))
		cum := NewManualReader()
		exp := &c02Exp{x: x, cum: sc.cumExport}
		opts := []Option{WithReader(delta), WithReader(cum)}
		var pr *PeriodicReader
		if sc.periodic {
			pr = NewPeriodicReader(exp)
			opts = append(opts, WithReader(pr))
		}
		mp := NewMeterProvider(opts...)
		meter := mp.Meter("m")
		var add func(v int64, attr string)
		sign := int64(1)
		switch sc.kind {
		case "int":
			c, _ := meter.Int64Counter("c")
			add = func(v int64, a string) { c.Add(ctx, v, api.WithAttributes(attribute.String("k", a))) }
			if sc.twoScopes {
				c2, _ := mp.Meter("m2").Int64Counter("c")
				add = func(v int64, a string) {
					if a == "B" {
						c2.Add(ctx, v, api.WithAttributes(attribute.String("k", a)))
					} else {
						c.Add(ctx, v, api.WithAttributes(attribute.String("k", a)))
					}
				}
			}
		case "float":
			c, _ := meter.Float64Counter("c")
			add = func(v int64, a string) { c.Add(ctx, float64(v), api.WithAttributes(attribute.String("k", a))) }
		case "updown":
			c, _ := meter.Int64UpDownCounter("c")
			sign = -1
			add = func(v int64, a string) { c.Add(ctx, -v, api.WithAttributes(attribute.String("k", a))) }
		}
		cbFail := false
		if sc.failingCb {
			_, _ = meter.Int64ObservableGauge("g", api.WithInt64Callback(func(_ context.Context, o api.Int64Observer) error {
				if cbFail {
					return errors.New("c02: callback failed")
				}
				o.Observe(1)
				return nil
			}))
		}
		want := map[string]int64{}
		vi := 0
		type recOp struct {
			v int64
			a string
		}
		var recs [][]recOp
		for _, ops := range sc.rec {
			var l []recOp
			for _, a := range ops {
				l = append(l, recOp{c02Vals[vi], a})
				want[a] += c02Vals[vi]
				vi++
			}
			recs = append(recs, l)
		}
		var deltas, cums [][]c02Point
		failed := false
		earlyShutdown := false
		shutdownCalledAt := -1
		var addReturned []c02Done
		clk := 0 // harness clock (one tick per recorded event; the scheduler's step counter does not move between two harness statements)
		tick := func() int { clk++; return clk }
		// when each manual collection was called and when it returned (harness clock), in the order of *into
		collTimes := map[*[][]c02Point][][2]int{}
		var addCalled []c02Done
		collect := func(rd *ManualReader, into *[][]c02Point, wantTemp metricdata.Temporality) {
			var rm metricdata.ResourceMetrics
			t0 := tick()
			if err := rd.Collect(ctx, &rm); err != nil {
				failed = true
				return
			}
			collTimes[into] = append(collTimes[into], [2]int{t0, tick()})
			pts, mono, temp := c02Read(&rm)
			if len(pts) > 0 {
				if temp != wantTemp {
					x.Fail("C02|wrong-temporality", "reader reported temporality %v, configured %v", temp, wantTemp)
				}
				if mono != (sc.kind != "updown") {
					x.Fail("C02|wrong-monotonicity", "IsMonotonic=%v for kind %s", mono, sc.kind)
				}
			}
			*into = append(*into, pts)
		}
		var wg vsync.WaitGroup
		wg.Add(len(recs) + len(sc.collects))
		for _, l := range recs {
			sched.Go(func() {
				defer wg.Done()
				for _, op := range l {
					addCalled = append(addCalled, c02Done{op.v, op.a, tick()})
					add(op.v, op.a)
					addReturned = append(addReturned, c02Done{op.v, op.a, tick()})
				}
			})
		}
		for _, ops := range sc.collects {
			sched.Go(func() {
				defer wg.Done()
				for _, op := range ops {
					switch op {
					case "D":
						collect(delta, &deltas, metricdata.DeltaTemporality)
					case "C":
						collect(cum, &cums, metricdata.CumulativeTemporality)
					case "F":
						if err := pr.ForceFlush(ctx); err != nil {
							failed = true
						}
					case "Ff": // a flush during which a callback of another instrument fails: data and an error
						cbFail = true
						if err := pr.ForceFlush(ctx); err == nil {
							x.Fail("C02|failing-callback-not-reported", "ForceFlush returned nil although a callback failed during its collection")
						}
						cbFail = false
					case "S": // Shutdown racing the interval export
						shutdownCalledAt = tick()
						if err := pr.Shutdown(ctx); err != nil {
							failed = true
						}
						earlyShutdown = true
					}
				}
			})
		}
		wg.Wait()
		// final collection of every reader
		collect(delta, &deltas, metricdata.DeltaTemporality)
		collect(cum, &cums, metricdata.CumulativeTemporality)
		if pr != nil {
			if err := pr.Shutdown(ctx); err != nil && !earlyShutdown {
				failed = true
			}
			if exp.sd != 1 {
				x.Fail("C02|periodic-exporter-shutdown-count", "exporter Shutdown called %d times by PeriodicReader.Shutdown", exp.sd)
			}
		}
		if failed {
			// a collection cut short by its (virtual) timeout is outside the property's quantifier
			*res = "collection-error"
			return
		}
		check := func(reader string, colls [][]c02Point, must map[string]int64) {
			// every digit 0/1 per collection, exactly 1 over all collections
			sum := map[string]int64{}
			for i, pts := range colls {
				seen := map[string]bool{}
				for _, p := range pts {
					if seen[p.attr] {
						x.Fail("C02|duplicate-attribute-set-in-collection|"+reader, "attribute set %s reported twice in one collection", p.attr)
					}
					seen[p.attr] = true
					v := int64(p.val) * sign
					if float64(v)*float64(sign) != p.val || v < 0 {
						x.Fail("C02|delta-not-a-subset-sum|"+reader, "collection %d of %s reports %v for %s", i, reader, p.val, p.attr)
						continue
					}
					for d := v; d > 0; d /= 3 {
						if d%3 == 2 {
							x.Fail("C02|measurement-counted-twice|"+reader, "collection %d of %s reports %v for %s: a measurement is counted twice (inputs are distinct powers of 3)", i, reader, p.val, p.attr)
						}
					}
					sum[p.attr] += v
					if p.start > p.time {
						x.Fail("C02|start-after-time|"+reader, "data point start %d after its time %d", p.start, p.time)
					}
				}
			}
			for _, a := range []string{"A", "B"} {
				w, ok := want[a]
				if !ok {
					continue
				}
				// digits (powers of three) reported must contain every required measurement and
				// nothing but recorded ones; without an early reader shutdown required == recorded
				miss, extra := false, false
				for g, m, y := sum[a], must[a], w; g > 0 || m > 0 || y > 0; g, m, y = g/3, m/3, y/3 {
					if m%3 == 1 && g%3 != 1 {
						miss = true
					}
					if g%3 == 1 && y%3 != 1 {
						extra = true
					}
					if g%3 == 2 {
						x.Fail("C02|measurement-counted-in-two-collections|"+reader, "%s: the deltas for %s add up to %d over %d collections: a measurement is counted twice (inputs are distinct powers of 3; recorded total %d)", reader, a, sum[a]*sign, len(colls), w*sign)
					}
				}
				if miss || extra {
					x.Fail("C02|delta-sum-mismatch|"+reader, "%s: delta values for %s add up to %d over %d collections, recorded total is %d, of which %d was recorded before the reader was shut down (collections %v)", reader, a, sum[a]*sign, len(colls), w*sign, must[a]*sign, colls)
				}
			}
			for a := range sum {
				if _, ok := want[a]; !ok {
					x.Fail("C02|phantom-attribute-set|"+reader, "%s reports attribute set %q that was never recorded", reader, a)
				}
			}
		}
		check("delta-manual", deltas, want)
		if pr != nil {
			must := want
			if earlyShutdown {
				// only measurements whose Add had returned before the reader's Shutdown was called
				// are guaranteed to be exported by it
				must = map[string]int64{}
				for _, d := range addReturned {
					if d.step < shutdownCalledAt {
						must[d.a] += d.v
					}
				}
			}
			if sc.failingCb {
				check("delta-periodic|a collection reported data together with a callback error", exp.colls, must)
			} else if !sc.cumExport {
				check("delta-periodic", exp.colls, must)
			} else {
				// cumulative exports, in the order the exporter received them: never a step back, and
				// the last one holds at least everything recorded before Shutdown was called
				lastExp := map[string]int64{}
				for i, pts := range exp.colls {
					for _, p := range pts {
						v := int64(p.val) * sign
						if v < lastExp[p.attr] {
							x.Fail("C02|cumulative-decreased|periodic exporter", "the periodic reader's exporter received %d for %s after it had received %d (export %d of %v)", v, p.attr, lastExp[p.attr], i, exp.colls)
						}
						lastExp[p.attr] = v
					}
				}
				for a, m := range must {
					miss := false
					for g, mm := lastExp[a], m; mm > 0; g, mm = g/3, mm/3 {
						if mm%3 == 1 && g%3 != 1 {
							miss = true
						}
					}
					if miss {
						x.Fail("C02|cumulative-total-mismatch|periodic exporter", "the last cumulative value the periodic reader's exporter received for %s is %d; %d had been recorded before the reader's Shutdown was called (exports %v)", a, lastExp[a], m, exp.colls)
					}
				}
			}
		}
		// every collection on its own, against the clock: what a collection reports (cumulative: its
		// value; delta: everything reported up to and including it) holds every measurement whose Add
		// had returned before the collection was called and none whose Add was called after it returned
		has := func(total, v int64) bool {
			for v > 1 {
				total, v = total/3, v/3
			}
			return total%3 == 1
		}
		timed := func(reader string, colls [][]c02Point, times [][2]int, delta bool) {
			if len(times) != len(colls) {
				return
			}
			vals := make([]map[string]int64, len(colls))
			for i, pts := range colls {
				vals[i] = map[string]int64{}
				for _, p := range pts {
					vals[i][p.attr] = int64(p.val) * sign
				}
			}
			for i := range colls {
				for _, d := range addReturned {
					if d.step >= times[i][0] {
						continue
					}
					// cumulative: the value itself holds it. delta: this collection or one that started
					// before this one returned (two collections of one reader may overlap, and the one
					// that took the value may return last)
					found := has(vals[i][d.a], d.v)
					for j := 0; delta && !found && j < len(colls); j++ {
						found = times[j][0] < times[i][1] && has(vals[j][d.a], d.v)
					}
					if !found {
						x.Fail("C02|collection-misses-a-finished-measurement|"+reader, "%s collection %d (called at tick %d, returned at %d) does not hold the measurement %d for %s whose Add had returned at tick %d, nor does a collection that started before it returned (collections %v, called/returned %v)", reader, i, times[i][0], times[i][1], d.v, d.a, d.step, colls, times)
					}
				}
				for _, d := range addCalled {
					if d.step > times[i][1] && has(vals[i][d.a], d.v) {
						x.Fail("C02|collection-holds-a-later-measurement|"+reader, "%s collection %d (returned at tick %d) holds the measurement %d for %s whose Add was only called at tick %d (collections %v)", reader, i, times[i][1], d.v, d.a, d.step, colls)
					}
				}
			}
		}
		timed("delta-manual", deltas, collTimes[&deltas], true)
		timed("cumulative-manual", cums, collTimes[&cums], false)
		// cumulative: last value equals the total, sequence monotone for monotonic inputs
		last := map[string]int64{}
		for i, pts := range cums {
			for _, p := range pts {
				v := int64(p.val) * sign
				if sc.kind != "updown" && v < last[p.attr] {
					x.Fail("C02|cumulative-decreased", "cumulative value for %s went from %d to %d at collection %d", p.attr, last[p.attr], v, i)
				}
				last[p.attr] = v
			}
		}
		for _, a := range []string{"A", "B"} {
			w, ok := want[a]
			if !ok {
				continue
			}
			if last[a] != w {
				x.Fail("C02|cumulative-total-mismatch", "latest cumulative value for %s is %d, recorded total is %d (collections %v)", a, last[a]*sign, w*sign, cums)
			}
		}
		*res = fmt.Sprint(deltas, cums, exp.colls)
	}
}

// c02LimitBody: conservation when the (experimental) cardinality limit folds attribute sets into
// the overflow set while recorders race: limit 2, three recorder threads with three distinct sets
// (so two of them overflow, possibly at the same moment) and a delta collector. Whatever set a
// measurement is filed under, every measurement (distinct powers of three) is counted exactly once
// over all delta collections and the cumulative reader's last collection holds all of them.
func c02LimitBody(res *string) func(x *sched.Exec) {
	return func(x *sched.Exec) {
		ctx := context.Background()
		os.Setenv("OTEL_GO_X_CARDINALITY_LIMIT", "2")
		defer os.Unsetenv("OTEL_GO_X_CARDINALITY_LIMIT")
		delta := NewManualReader(WithTemporalitySelector(func(InstrumentKind) metricdata.Temporality { return metricdata.DeltaTemporality }))
		cum := NewManualReader()
		mp := NewMeterProvider(WithReader(delta), WithReader(cum))
		c, _ := mp.Meter("m").Int64Counter("c")
		var deltas, cums []int64
		collect := func(rd *ManualReader, into *[]int64) {
			var rm metricdata.ResourceMetrics
			if err := rd.Collect(ctx, &rm); err != nil {
				x.Fail("C02|limit|collect-error", "Collect: %v", err)
				return
			}
			for _, sm := range rm.ScopeMetrics {
				for _, m := range sm.Metrics {
					if d, ok := m.Data.(metricdata.Sum[int64]); ok {
						for _, dp := range d.DataPoints {
							*into = append(*into, dp.Value)
						}
					}
				}
			}
		}
		var wg vsync.WaitGroup
		wg.Add(4)
		for i, v := range []int64{1, 3, 9} {
			sched.Go(func() {
				defer wg.Done()
				c.Add(ctx, v, api.WithAttributes(attribute.Int("set", i)))
			})
		}
		sched.Go(func() {
			defer wg.Done()
			collect(delta, &deltas)
		})
		wg.Wait()
		collect(delta, &deltas)
		collect(cum, &cums)
		count := func(vals []int64) (digits [3]int, bad bool) {
			for _, v := range vals {
				for i := 0; i < 3; i++ {
					d := v % 3
					v /= 3
					digits[i] += int(d)
				}
				if v != 0 {
					bad = true
				}
			}
			return
		}
		if d, bad := count(deltas); bad || d != [3]int{1, 1, 1} {
			x.Fail("C02|limit|delta-sum-mismatch", "cardinality limit 2, three sets recording 1, 3, 9 concurrently: delta values over all collections and sets are %v (each measurement must be counted exactly once)", deltas)
		}
		if d, bad := count(cums); bad || d != [3]int{1, 1, 1} {
			x.Fail("C02|limit|cumulative-total-mismatch", "cardinality limit 2, three sets recording 1, 3, 9 concurrently: the cumulative reader's values are %v (total must be 13, each measurement once)", cums)
		}
		*res = fmt.Sprint(deltas, cums)
	}
}

// c02CreateBody: "seen by every registered reader" while instruments are still being created.
// Three threads each create their own counter on one meter (one scope: the order in which a
// collection lists several scopes is map order, different from run to run) -- with both number
// types, which have separate aggregator caches, so that creations really overlap -- and record
// once; afterwards a delta and a cumulative reader must each report all three streams with their
// values.
func c02CreateBody(res *string) func(x *sched.Exec) {
	return func(x *sched.Exec) {
		ctx := context.Background()
		delta := NewManualReader(WithTemporalitySelector(func(InstrumentKind) metricdata.Temporality { return metricdata.DeltaTemporality }))
		cum := NewManualReader()
		mp := NewMeterProvider(WithReader(delta), WithReader(cum))
		var wg vsync.WaitGroup
		wg.Add(3)
		sched.Go(func() {
			defer wg.Done()
			c, _ := mp.Meter("a").Int64Counter("x")
			c.Add(ctx, 1)
		})
		sched.Go(func() {
			defer wg.Done()
			c, _ := mp.Meter("a").Float64Counter("y")
			c.Add(ctx, 3)
		})
		sched.Go(func() {
			defer wg.Done()
			c, _ := mp.Meter("a").Float64UpDownCounter("z")
			c.Add(ctx, 9)
		})
		wg.Wait()
		var out []string
		for _, rd := range []struct {
			name string
			r    *ManualReader
		}{{"delta", delta}, {"cumulative", cum}} {
			var rm metricdata.ResourceMetrics
			if err := rd.r.Collect(ctx, &rm); err != nil {
				x.Fail("C02|concurrent-creation|collect-error", "Collect: %v", err)
			}
			got := map[string]float64{}
			for _, sm := range rm.ScopeMetrics {
				for _, m := range sm.Metrics {
					switch d := m.Data.(type) {
					case metricdata.Sum[int64]:
						for _, dp := range d.DataPoints {
							got[sm.Scope.Name+"/"+m.Name] += float64(dp.Value)
						}
					case metricdata.Sum[float64]:
						for _, dp := range d.DataPoints {
							got[sm.Scope.Name+"/"+m.Name] += dp.Value
						}
					}
				}
			}
			if fmt.Sprint(got) != fmt.Sprint(map[string]float64{"a/x": 1, "a/y": 3, "a/z": 9}) {
				x.Fail("C02|concurrent-creation|stream-missing-from-a-reader", "three counters created and recorded concurrently (a/x=1, a/y=3, a/z=9): the %s reader reports %v", rd.name, got)
			}
			out = append(out, fmt.Sprint(got))
		}
		*res = strings.Join(out, " ")
	}
}

type c02Job struct {
	sc   c02Scn
	p, e int
}

func (j c02Job) name() string { return fmt.Sprintf("%s/P%dE%d", j.sc.name, j.p, j.e) }

func c02Jobs(thorough bool) []c02Job {
	A, B := "A", "B"
	m1 := c02Scn{"M1-int", "int", [][]string{{A, B}, {A, A}}, [][]string{{"D", "D"}}, false, false, false, false}
	m2 := c02Scn{"M2-float", "float", [][]string{{A, B}, {A}}, [][]string{{"D"}, {"C"}}, false, false, false, false}
	m3 := c02Scn{"M3-updown", "updown", [][]string{{A, A}, {A}}, [][]string{{"D", "C"}}, false, false, false, false}
	m4 := c02Scn{"M4-int-2collectors", "int", [][]string{{A, A}}, [][]string{{"D"}, {"D"}}, false, false, false, false}
	p1 := c02Scn{"P1-periodic", "int", [][]string{{A, B}}, [][]string{{"F"}}, true, false, false, false}
	p2 := c02Scn{"P2-periodic", "int", [][]string{{A}, {A}}, [][]string{{"F"}, {"D"}}, true, false, false, false}
	m5 := c02Scn{"M5-int-3recorders", "int", [][]string{{A, B}, {A, A}, {B}}, [][]string{{"D", "D"}, {"C"}}, false, false, false, false}
	p3 := c02Scn{"P3-periodic-float", "float", [][]string{{A, A}, {B}}, [][]string{{"F", "F"}}, true, false, false, false}
	// two scopes, interval export in flight while Shutdown cancels the run loop's context
	p4 := c02Scn{"P4-periodic-2scopes-shutdown", "int", [][]string{{A, B}}, [][]string{{"S"}}, true, true, false, false}
	// cumulative exporter: an interval export in flight while Shutdown makes its final collection
	p5 := c02Scn{name: "P5-periodic-cumulative-shutdown", kind: "int", rec: [][]string{{A}, {A}}, collects: [][]string{{"F"}, {"S"}}, periodic: true, cumExport: true}
	m6 := c02Scn{"M6-int-2scopes", "int", [][]string{{A, B}, {B, A}}, [][]string{{"D", "D"}}, false, true, false, false}
	// a NEW set measured by two threads with a delta collection in between, while another set of the
	// same cycle keeps the stream table at the same size before and after the collection
	// a failing callback of ANOTHER instrument in one cycle: the sums collected in that cycle still count
	p6 := c02Scn{name: "P6-periodic-failing-callback", kind: "int", rec: [][]string{{A}, {B}}, collects: [][]string{{"Ff", "F"}}, periodic: true, failingCb: true}
	m10 := c02Scn{"M10-new-set-twice-across-a-delta-collection", "int", [][]string{{A, B}, {B}}, [][]string{{"D"}}, false, false, false, false}
	if !thorough {
		return []c02Job{{m10, 3, 0}, {p6, 1, 0}, {m1, 3, 0}, {m2, 3, 0}, {m3, 3, 0}, {m4, 3, 0}, {m6, 2, 0}, {p1, 1, 1}, {p2, 1, 0}, {p2, 0, 1}, {p4, 1, 1}, {p5, 1, 0}, {p5, 0, 1}}
	}
	return []c02Job{{m10, 4, 0}, {p6, 2, 1}, {m1, 4, 0}, {m2, 4, 0}, {m3, 4, 0}, {m4, 4, 0}, {m5, 2, 0}, {m5, 3, 0}, {p1, 2, 2}, {p2, 1, 1}, {p2, 2, 0}, {p3, 1, 1}, {p3, 2, 0}, {p4, 2, 1}, {p4, 1, 2}, {m6, 3, 0}, {p5, 2, 1}}
}

// c02SameName: "for every counter and up-down counter ... the sum of the measurements recorded" is
// per instrument. Every ordered pair of different synchronous instrument kinds of one number type,
// created with the same name, description and unit on ONE meter (the meter caches instruments),
// each recording its own distinct powers of three over two collection cycles of a delta and a
// cumulative reader: the stream of each sum kind (told apart by IsMonotonic and number type) must
// hold exactly that instrument's measurements, and a monotonic sum never decreases. Sequential;
// runs under the scheduler only because the package is instrumented.
func c02SameName(r *enum.R) {
	kinds := []string{"counter", "updown", "histogram", "gauge"}
	r.Bound("same_name_kinds_per_number_type", kinds)
	for _, num := range []string{"int64", "float64"} {
		for _, ka := range kinds {
			for _, kb := range kinds {
				if ka == kb || !r.Want() {
					continue
				}
				r.Eval()
				cas := map[string]any{"number": num, "created_first": ka, "created_second": kb, "name": "jobs"}
				x := sched.Run(nil, 8000, false, func(x *sched.Exec) {
					ctx := context.Background()
					delta := NewManualReader(WithTemporalitySelector(func(InstrumentKind) metricdata.Temporality { return metricdata.DeltaTemporality }))
					cum := NewManualReader()
					mp := NewMeterProvider(WithReader(delta), WithReader(cum))
					meter := mp.Meter("m")
					mk := func(kind string) func(v int64) {
						switch num + "/" + kind {
						case "int64/counter":
							c, _ := meter.Int64Counter("jobs")
							return func(v int64) { c.Add(ctx, v) }
						case "int64/updown":
							c, _ := meter.Int64UpDownCounter("jobs")
							return func(v int64) { c.Add(ctx, -v) }
						case "int64/histogram":
							c, _ := meter.Int64Histogram("jobs")
							return func(v int64) { c.Record(ctx, v) }
						case "int64/gauge":
							c, _ := meter.Int64Gauge("jobs")
							return func(v int64) { c.Record(ctx, v) }
						case "float64/counter":
							c, _ := meter.Float64Counter("jobs")
							return func(v int64) { c.Add(ctx, float64(v)) }
						case "float64/updown":
							c, _ := meter.Float64UpDownCounter("jobs")
							return func(v int64) { c.Add(ctx, -float64(v)) }
						case "float64/histogram":
							c, _ := meter.Float64Histogram("jobs")
							return func(v int64) { c.Record(ctx, float64(v)) }
						}
						c, _ := meter.Float64Gauge("jobs")
						return func(v int64) { c.Record(ctx, float64(v)) }
					}
					a, b := mk(ka), mk(kb)
					// want[kind] = running total of that instrument (up-down counters record negated values)
					want := map[string]int64{}
					rec := func(kind string, f func(int64), v int64) {
						f(v)
						if kind == "updown" {
							v = -v
						}
						want[kind] += v
					}
					sums := func(rd *ManualReader) map[string]int64 {
						var rm metricdata.ResourceMetrics
						if err := rd.Collect(ctx, &rm); err != nil {
							x.Fail("C02|same-name|collect-error", "Collect: %v", err)
						}
						got := map[string]int64{}
						for _, sm := range rm.ScopeMetrics {
							for _, m := range sm.Metrics {
								k, v := "", int64(0)
								switch d := m.Data.(type) {
								case metricdata.Sum[int64]:
									k = map[bool]string{true: "counter", false: "updown"}[d.IsMonotonic]
									for _, dp := range d.DataPoints {
										v += dp.Value
									}
								case metricdata.Sum[float64]:
									k = map[bool]string{true: "counter", false: "updown"}[d.IsMonotonic]
									for _, dp := range d.DataPoints {
										v += int64(dp.Value)
									}
								default:
									continue
								}
								if _, dup := got[k]; dup {
									x.Fail("C02|same-name|stream-reported-twice", "two %s sum streams named %q in one collection", k, m.Name)
								}
								got[k] = v
							}
						}
						return got
					}
					deltaTotal := map[string]int64{}
					lastCum := map[string]int64{}
					vals := []int64{1, 3, 9, 27, 81, 243}
					for cycle := 0; cycle < 2; cycle++ {
						rec(ka, a, vals[3*cycle])
						rec(kb, b, vals[3*cycle+1])
						rec(ka, a, vals[3*cycle+2])
						for k, v := range sums(delta) {
							deltaTotal[k] += v
							if k == "counter" && v < 0 {
								x.Fail("C02|same-name|monotonic-delta-negative", "delta collection %d reports %d for the monotonic sum", cycle, v)
							}
						}
						for k, v := range sums(cum) {
							if k == "counter" && v < lastCum[k] {
								x.Fail("C02|same-name|cumulative-decreased", "the monotonic cumulative sum went from %d to %d", lastCum[k], v)
							}
							lastCum[k] = v
						}
						for _, k := range []string{"counter", "updown"} {
							if k != ka && k != kb {
								if _, ok := deltaTotal[k]; ok {
									x.Fail("C02|same-name|phantom-stream", "a %s sum is reported, no such instrument was created", k)
								}
								continue
							}
							if deltaTotal[k] != want[k] {
								x.Fail("C02|same-name|delta-sum-mismatch", "%s %q created next to a same-named %s: delta values add up to %d after cycle %d, it recorded %d", k, "jobs", map[bool]string{true: kb, false: ka}[k == ka], deltaTotal[k], cycle, want[k])
							}
							if lastCum[k] != want[k] {
								x.Fail("C02|same-name|cumulative-total-mismatch", "%s %q created next to a same-named %s: cumulative value %d after cycle %d, it recorded %d", k, "jobs", map[bool]string{true: kb, false: ka}[k == ka], lastCum[k], cycle, want[k])
							}
						}
					}
					_ = mp.Shutdown(ctx)
				})
				if x.Status != "" {
					r.FailHere("same-name|"+x.Status, cas, "%s\n%s", x.Status, x.Stack)
				}
				for _, f := range x.Violations {
					r.FailHere(strings.TrimPrefix(f.Key, "C02|"), cas, "%s", f.Msg)
				}
				r.Outcome(fmt.Sprint(num, ka, kb, len(x.Violations)))
				r.Sample(func() any { return cas })
			}
		}
	}
}

// c02ManySets: conservation does not depend on how many attribute sets an instrument has seen. N
// sets (up to well past the specification's default cardinality limit of 2000), four cycles in
// which every set / every other set / no set / every set is measured, read by a delta and a
// cumulative reader: per set, the cumulative value is the running total, the delta values add up
// to it, and a monotonic sum never decreases. Sequential.
func c02ManySets(r *enum.R) {
	sizes := []int{1, 64, 2000, 2001, 5000}
	r.Bound("many_sets_sizes", sizes)
	for _, n := range sizes {
		for _, kind := range []string{"int64 counter", "float64 up-down counter"} {
			if !r.Want() {
				continue
			}
			r.Eval()
			cas := map[string]any{"attribute_sets": n, "instrument": kind}
			x := sched.Run(nil, 4000000, false, func(x *sched.Exec) {
				ctx := context.Background()
				delta := NewManualReader(WithTemporalitySelector(func(InstrumentKind) metricdata.Temporality { return metricdata.DeltaTemporality }))
				cum := NewManualReader()
				mp := NewMeterProvider(WithReader(delta), WithReader(cum))
				var add func(i int, v int64)
				if kind == "int64 counter" {
					c, _ := mp.Meter("m").Int64Counter("c")
					add = func(i int, v int64) { c.Add(ctx, v, api.WithAttributes(attribute.Int("id", i))) }
				} else {
					c, _ := mp.Meter("m").Float64UpDownCounter("c")
					add = func(i int, v int64) { c.Add(ctx, float64(v), api.WithAttributes(attribute.Int("id", i))) }
				}
				total := make([]int64, n)
				deltaSum := make([]int64, n)
				lastCum := make([]int64, n)
				read := func(rd *ManualReader) map[int]int64 {
					var rm metricdata.ResourceMetrics
					if err := rd.Collect(ctx, &rm); err != nil {
						x.Fail("C02|many-sets|collect-error", "Collect: %v", err)
					}
					out := map[int]int64{}
					for _, sm := range rm.ScopeMetrics {
						for _, m := range sm.Metrics {
							switch d := m.Data.(type) {
							case metricdata.Sum[int64]:
								for _, dp := range d.DataPoints {
									v, _ := dp.Attributes.Value("id")
									out[int(v.AsInt64())] += dp.Value
								}
							case metricdata.Sum[float64]:
								for _, dp := range d.DataPoints {
									v, _ := dp.Attributes.Value("id")
									out[int(v.AsInt64())] += int64(dp.Value)
								}
							}
						}
					}
					return out
				}
				for cycle, every := range []int{1, 2, 0, 1} {
					if every > 0 {
						for i := 0; i < n; i += every {
							v := int64(cycle + 1)
							add(i, v)
							total[i] += v
						}
					}
					for i, v := range read(delta) {
						deltaSum[i] += v
					}
					cv := read(cum)
					for i := 0; i < n; i++ {
						v, ok := cv[i]
						if !ok {
							x.Fail("C02|many-sets|cumulative-point-missing", "%d attribute sets, cycle %d: the cumulative reader no longer reports set id=%d (running total %d)", n, cycle, i, total[i])
							return
						}
						if v < lastCum[i] {
							x.Fail("C02|many-sets|cumulative-decreased", "%d attribute sets, cycle %d: cumulative value of id=%d went from %d to %d", n, cycle, i, lastCum[i], v)
							return
						}
						lastCum[i] = v
						if v != total[i] {
							x.Fail("C02|many-sets|cumulative-total-mismatch", "%d attribute sets, cycle %d: cumulative value of id=%d is %d, running total %d", n, cycle, i, v, total[i])
							return
						}
						if deltaSum[i] != total[i] {
							x.Fail("C02|many-sets|delta-sum-mismatch", "%d attribute sets, cycle %d: delta values of id=%d add up to %d, running total %d", n, cycle, i, deltaSum[i], total[i])
							return
						}
					}
				}
				_ = mp.Shutdown(ctx)
			})
			if x.Status != "" {
				r.FailHere("many-sets|"+x.Status, cas, "%s\n%s", x.Status, x.Stack)
			}
			for _, f := range x.Violations {
				r.FailHere(strings.TrimPrefix(f.Key, "C02|"), cas, "%s", f.Msg)
			}
			r.Outcome(fmt.Sprint(n, kind, len(x.Violations)))
			r.Sample(func() any { return cas })
		}
	}
}

func TestVerifC02(t *testing.T) {
	thorough := enum.Start("C02", "probe").Thorough()
	all := c02Jobs(thorough)
	var names []string
	for _, j := range all {
		names = append(names, j.name())
	}
	names = append(names, "same-name-kinds", "many-sets", "M8-limit2-overflow/P2E0", "M9-concurrent-creation/P2E0")
	enum.Jobs(names, func(job string) {
		r := enum.Start("C02", "sums")
		defer r.Finish()
		if job == "same-name-kinds" {
			r.Section(job)
			c02SameName(r)
			return
		}
		if job == "many-sets" {
			r.Section(job)
			c02ManySets(r)
			return
		}
		if job == "M9-concurrent-creation/P2E0" {
			var res string
			r.Bound("creation_scenario_max_preemptions", 2)
			st := sched.Explore(r, sched.Config{Name: job, MaxP: 2, MaxE: 0, MaxSteps: 6000, Body: c02CreateBody(&res), Outcome: func(*sched.Exec) string { return res }})
			t.Logf("%s: execs=%d states=%d outcomes=%d complete=%v keys=%v", job, st.Execs, st.States, len(st.Outcomes), st.Complete, r.Keys())
			return
		}
		if job == "M8-limit2-overflow/P2E0" {
			var res string
			r.Bound("limit_scenario_max_preemptions", 2)
			st := sched.Explore(r, sched.Config{Name: job, MaxP: 2, MaxE: 0, MaxSteps: 6000, Body: c02LimitBody(&res), Outcome: func(*sched.Exec) string { return res }})
			t.Logf("%s: execs=%d states=%d outcomes=%d complete=%v keys=%v", job, st.Execs, st.States, len(st.Outcomes), st.Complete, r.Keys())
			return
		}
		for _, j := range all {
			if j.name() != job {
				continue
			}
			r.Bound("jobs(scenario/bounds)", strings.Join(names, " "))
			r.Bound("max_preemptions", j.p)
			r.Bound("max_env_deviations", j.e)
			var res string
			st := sched.Explore(r, sched.Config{Name: job, MaxP: j.p, MaxE: j.e, MaxSteps: 6000, Body: c02Body(j.sc, &res),
				Outcome: func(*sched.Exec) string { return res }, DeadlockOK: true})
			t.Logf("%s: execs=%d states=%d steps=%d pruned=%d deadlocks=%d horizon=%d outcomes=%d complete=%v keys=%v", job, st.Execs, st.States, st.Steps, st.Pruned, st.Deadlocks, st.Horizon, len(st.Outcomes), st.Complete, r.Keys())
		}
	})
}
