package log

// C20, sdk/log: NewBatchProcessor (OTEL_BLRP_* x WithMaxQueueSize / WithExportMaxBatchSize /
// WithExportInterval / WithExportTimeout) and NewLoggerProvider (OTEL_LOGRECORD_ATTRIBUTE_*_LIMIT
// x WithAttributeCountLimit / WithAttributeValueLengthLimit): the cross product of value
// classes {absent, valid, zero, negative, non-numeric, huge, empty} per source is run on the
// real constructors under recover, the effective values are read in-package and compared with
// the accept sets of c20sdk.

import (
	"context"
	"errors"
	"fmt"
	"io"
	stdlog "log"
	"math"
	"strings"
	"testing"
	"time"

	"github.com/go-logr/logr"

	"go.opentelemetry.io/otel"
	"go.opentelemetry.io/otel/sdk/log/internal/c20sdk"
	"verif/mc/enum"
)

type c20Exporter struct{ records int }

func (e *c20Exporter) Export(_ context.Context, rs []Record) error {
	e.records += len(rs)
	return nil
}
func (e *c20Exporter) Shutdown(context.Context) error   { return nil }
func (e *c20Exporter) ForceFlush(context.Context) error { return nil }

const c20SafetyNet = 10 * time.Second // real-time safety net only; hitting it is a cap, never a verdict

// "The default value is also used when the provided value is less than one." (every
// BatchProcessor option): zero and negative are out of range for options and variables alike.
func c20BLRP(r *enum.R) *c20sdk.Component {
	ms := int64(time.Millisecond)
	c := &c20sdk.Component{Name: "NewBatchProcessor", Settings: []c20sdk.Setting{
		{Name: "max_queue_size", Default: dfltMaxQSize, Sources: []c20sdk.Source{
			{Kind: "option", Alts: c20sdk.OptAlts(100, "invalid", "invalid", 0)},
			{Kind: "env", Env: envarMaxQSize, Alts: c20sdk.EnvAlts(1000, 50, 1, "invalid", "invalid")}}},
		{Name: "max_export_batch_size", Default: dfltExpMaxBatchSize, Sources: []c20sdk.Source{
			{Kind: "option", Alts: c20sdk.OptAlts(20, "invalid", "invalid", 0)},
			{Kind: "env", Env: envarExpMaxBatchSize, Alts: c20sdk.EnvAlts(30, 700, 1, "invalid", "invalid")}}},
		{Name: "schedule_delay", Default: int64(dfltExpInterval), Sources: []c20sdk.Source{
			{Kind: "option", Alts: c20sdk.OptAlts(int64(7*time.Second), "invalid", "invalid", math.MaxInt64)},
			{Kind: "env", Env: envarExpInterval, Alts: c20sdk.EnvAlts(1500, 250, ms, "invalid", "invalid")}}},
		{Name: "export_timeout", Default: int64(dfltExpTimeout), Sources: []c20sdk.Source{
			{Kind: "option", Alts: c20sdk.OptAlts(int64(11*time.Second), "invalid", "invalid", math.MaxInt64)},
			{Kind: "env", Env: envarExpTimeout, Alts: c20sdk.EnvAlts(2500, 750, ms, "invalid", "invalid")}}},
	}}
	// a batch size above a configured queue size: every queue size a present source declares
	// (clamping) and the default batch size are accepted too
	c.Relax = func(acc, declared [][]int64) [][]int64 {
		over := false
		for _, b := range acc[1] {
			for _, q := range declared[0] {
				over = over || b > q
			}
		}
		if over {
			acc[1] = append(append(acc[1], declared[0]...), dfltExpMaxBatchSize)
		}
		return acc
	}
	c.Run = func(ch c20sdk.Choice, alt func(si, src int) *c20sdk.Alt) c20sdk.Result {
		return c.RunSteps(c20sdk.StepsOf(4, alt))
	}
	c.RunSteps = func(steps []c20sdk.Step) (res c20sdk.Result) {
		var opts []BatchProcessorOption
		for _, st := range steps {
			switch st.Setting {
			case 0:
				opts = append(opts, WithMaxQueueSize(int(st.N)))
			case 1:
				opts = append(opts, WithExportMaxBatchSize(int(st.N)))
			case 2:
				opts = append(opts, WithExportInterval(time.Duration(st.N)))
			case 3:
				opts = append(opts, WithExportTimeout(time.Duration(st.N)))
			}
		}
		exp := &c20Exporter{}
		var b *BatchProcessor
		func() {
			defer func() {
				if p := recover(); p != nil {
					res.Panic = fmt.Sprint(p)
				}
			}()
			cfg := newBatchConfig(opts)
			res.Values = []int64{int64(cfg.maxQSize.Value), int64(cfg.expMaxBatchSize.Value), int64(cfg.expInterval.Value), int64(cfg.expTimeout.Value)}
			b = NewBatchProcessor(exp, opts...)
		}()
		if res.Panic != "" {
			return res
		}
		if b.q.cap != int(res.Values[0]) || b.batchSize != int(res.Values[1]) {
			// the constructed processor is what counts
			res.Note = "processor differs from newBatchConfig"
			res.Values[0], res.Values[1] = int64(b.q.cap), int64(b.batchSize)
		}
		func() {
			defer func() {
				if p := recover(); p != nil {
					res.Panic = "while driving the processor: " + fmt.Sprint(p)
				}
			}()
			ctx, cancel := context.WithTimeout(context.Background(), c20SafetyNet)
			var rec Record
			b.OnEmit(ctx, &rec)
			err1 := b.ForceFlush(ctx)
			err2 := b.Shutdown(ctx)
			cancel()
			if errors.Is(err1, context.DeadlineExceeded) || errors.Is(err2, context.DeadlineExceeded) {
				r.Cap("ForceFlush/Shutdown of a constructed log batch processor hit the real-time safety net (not judged)")
			}
		}()
		return res
	}
	return c
}

// WithAttributeCountLimit / WithAttributeValueLengthLimit: "Setting this to zero means no
// attributes will be recorded", "a negative value means no limit": every integer is a valid
// literal for the option and for the variable.
func c20LogLimits() *c20sdk.Component {
	lit := func() []c20sdk.Alt {
		return []c20sdk.Alt{{Class: "absent"},
			{Class: "valid", Present: true, N: 9, Provides: true, Value: 9},
			{Class: "zero", Present: true, N: 0, Provides: true, Value: 0},
			{Class: "negative", Present: true, N: -3, Provides: true, Value: -3}}
	}
	c := &c20sdk.Component{Name: "NewLoggerProvider", Settings: []c20sdk.Setting{
		{Name: "attribute_count_limit", Default: defaultAttrCntLim, Sources: []c20sdk.Source{
			{Kind: "option", Alts: lit()},
			{Kind: "env", Env: envarAttrCntLim, Alts: c20sdk.EnvAlts(7, 300, 1, "literal", "literal")}}},
		{Name: "attribute_value_length_limit", Default: defaultAttrValLenLim, Sources: []c20sdk.Source{
			{Kind: "option", Alts: lit()},
			{Kind: "env", Env: envarAttrValLenLim, Alts: c20sdk.EnvAlts(7, 300, 1, "literal", "literal")}}},
	}}
	c.Run = func(ch c20sdk.Choice, alt func(si, src int) *c20sdk.Alt) c20sdk.Result {
		return c.RunSteps(c20sdk.StepsOf(2, alt))
	}
	c.RunSteps = func(steps []c20sdk.Step) (res c20sdk.Result) {
		var opts []LoggerProviderOption
		for _, st := range steps {
			if st.Setting == 0 {
				opts = append(opts, WithAttributeCountLimit(int(st.N)))
			} else {
				opts = append(opts, WithAttributeValueLengthLimit(int(st.N)))
			}
		}
		defer func() {
			if p := recover(); p != nil {
				res.Panic = fmt.Sprint(p)
			}
		}()
		p := NewLoggerProvider(opts...)
		res.Values = []int64{int64(p.attributeCountLimit), int64(p.attributeValueLengthLimit)}
		p.Shutdown(context.Background())
		return res
	}
	return c
}

// Variables that are no source of the batch LOG processor: the span batch processor's, the
// periodic reader's, the exporters' timeouts, near misses of the real names. Every value is a
// valid number that differs from every default and every value of the alphabets.
var c20ForeignBLRP = []c20sdk.KV{
	{"OTEL_BSP_MAX_QUEUE_SIZE", "333"}, {"OTEL_BSP_MAX_EXPORT_BATCH_SIZE", "33"}, {"OTEL_BSP_SCHEDULE_DELAY", "3333"}, {"OTEL_BSP_EXPORT_TIMEOUT", "4444"},
	{"OTEL_METRIC_EXPORT_INTERVAL", "3333"}, {"OTEL_METRIC_EXPORT_TIMEOUT", "4444"},
	{"OTEL_EXPORTER_OTLP_TIMEOUT", "4444"}, {"OTEL_EXPORTER_OTLP_LOGS_TIMEOUT", "4444"},
	{"OTEL_BLRP_QUEUE_SIZE", "333"}, {"OTEL_BLRP_MAX_BATCH_SIZE", "33"}, {"OTEL_BLRP_EXPORT_INTERVAL", "3333"}, {"OTEL_BLRP_TIMEOUT", "4444"},
	{"OTEL_BLP_MAX_QUEUE_SIZE", "333"}, {"OTEL_BLRP_EXPORT_MAX_BATCH_SIZE", "33"}, {"otel_blrp_max_queue_size", "333"}, {"OTEL_BLRP_SCHEDULE_DELAY_MILLIS", "3333"},
}

// Variables that are no source of the LOG RECORD limits: the span limits and near misses. (The
// generic OTEL_ATTRIBUTE_*_LIMIT variables are left out: whether they apply to log records is
// not part of the statement.)
var c20ForeignLimits = []c20sdk.KV{
	{"OTEL_SPAN_ATTRIBUTE_COUNT_LIMIT", "3"}, {"OTEL_SPAN_ATTRIBUTE_VALUE_LENGTH_LIMIT", "3"}, {"OTEL_EVENT_ATTRIBUTE_COUNT_LIMIT", "3"}, {"OTEL_LINK_ATTRIBUTE_COUNT_LIMIT", "3"},
	{"OTEL_SPAN_EVENT_COUNT_LIMIT", "3"}, {"OTEL_SPAN_LINK_COUNT_LIMIT", "3"},
	{"OTEL_LOG_ATTRIBUTE_COUNT_LIMIT", "3"}, {"OTEL_LOGS_ATTRIBUTE_COUNT_LIMIT", "3"}, {"OTEL_LOGRECORD_ATTRIBUTE_LIMIT", "3"}, {"OTEL_LOGRECORD_ATTRIBUTE_VALUE_LIMIT", "3"},
	{"OTEL_LOGRECORD_ATTRIBUTE_COUNT", "3"}, {"otel_logrecord_attribute_count_limit", "3"}, {"OTEL_BLRP_MAX_QUEUE_SIZE", "3"},
}

func TestVerifC20(t *testing.T) {
	otel.SetErrorHandler(otel.ErrorHandlerFunc(func(error) {}))
	otel.SetLogger(logr.Discard())
	stdlog.SetOutput(io.Discard)
	shards := c20sdk.New(nil, c20BLRP(nil)).Shards(2)
	jobs := []string{"limits", "order", "foreign"}
	for i := range shards {
		jobs = append(jobs, fmt.Sprintf("blrp:%02d", i))
	}
	enum.Jobs(jobs, func(job string) {
		r := enum.Start("C20", "sdklog")
		defer r.Finish()
		c20sdk.ClearEnv()
		r.Section(job)
		r.Bound("value_classes", "option {absent, valid, zero, negative[, huge]} x env {absent, valid, valid2, zero, negative, non-numeric, huge, empty}")
		switch {
		case job == "order":
			r.Section("order:blrp")
			c20sdk.New(r, c20BLRP(r)).Order()
			r.Section("order:limits")
			c20sdk.New(r, c20LogLimits()).Order()
		case job == "foreign":
			r.Section("foreign:blrp")
			c20sdk.New(r, c20BLRP(r)).Foreign(c20ForeignBLRP)
			r.Section("foreign:limits")
			c20sdk.New(r, c20LogLimits()).Foreign(c20ForeignLimits)
		case job == "limits":
			x := c20sdk.New(r, c20LogLimits())
			r.Bound("limits_points", x.Points(4))
			x.Enumerate(4, nil) // full cross product
		case strings.HasPrefix(job, "blrp:"):
			// quick: every point with at most 3 of the 8 sources set; thorough: at most 5
			// (every pair of settings with its full source product is k = 4)
			var i int
			fmt.Sscanf(job, "blrp:%d", &i)
			x := c20sdk.New(r, c20BLRP(r))
			k := enum.Pick(r, 3, 5)
			r.Bound("blrp_max_non_simplest_sources(of 8)", k)
			r.Bound("blrp_points", x.Points(k))
			x.Enumerate(k, shards[i])
		}
	})
}
