package otlploggrpc

// C20, exporter otlploggrpc: newConfig + newClient (the two steps of New) are run for every
// configuration point of c20model; the resolved configuration is read from the config and the
// ClientConn target, then one upload is pushed through a scripted gRPC unary interceptor
// (WithDialOption), which sees target, outgoing metadata, compressor call option and deadline
// and answers OK without invoking the transport. grpc.NewClient is lazy: no socket is opened.

import (
	"context"
	"io"
	"log"
	"strings"
	"testing"

	"github.com/go-logr/logr"
	"google.golang.org/grpc"
	"google.golang.org/grpc/metadata"

	"go.opentelemetry.io/otel"
	"go.opentelemetry.io/otel/exporters/otlp/otlplog/otlploggrpc/internal/c20model"
	logpb "go.opentelemetry.io/proto/otlp/logs/v1"
)

func c20Options(opts []c20model.Opt) []Option {
	var real []Option
	for _, o := range opts {
		switch o.Kind {
		case "endpoint":
			real = append(real, WithEndpoint(o.S))
		case "endpointURL":
			real = append(real, WithEndpointURL(o.S))
		case "insecure":
			real = append(real, WithInsecure())
		case "headers":
			real = append(real, WithHeaders(o.H))
		case "compression":
			real = append(real, WithCompressor(o.S))
		case "timeout":
			real = append(real, WithTimeout(o.D))
		default:
			panic("harness: unknown option kind " + o.Kind)
		}
	}
	return real
}

func c20Comp(gzip bool) string {
	if gzip {
		return "gzip"
	}
	return "none"
}

func c20MD(md metadata.MD) map[string]string {
	m := map[string]string{}
	for k, v := range md {
		m[k] = strings.Join(v, ",")
	}
	return m
}

func c20Target(t string) string {
	for _, p := range []string{"dns:///", "passthrough:///"} {
		t = strings.TrimPrefix(t, p)
	}
	return t
}

// c20Interceptor is the scripted seam.
func c20Interceptor(o *c20model.Obs) grpc.UnaryClientInterceptor {
	return func(ctx context.Context, method string, req, reply any, cc *grpc.ClientConn, _ grpc.UnaryInvoker, opts ...grpc.CallOption) error {
		o.WireCalls++
		o.HasWire = true
		o.Scheme = method + "@"
		o.Wire.Host = c20Target(cc.Target())
		md, _ := metadata.FromOutgoingContext(ctx)
		o.Wire.Headers = c20MD(md)
		o.Wire.Compression = "none"
		for _, co := range opts {
			if c, ok := co.(grpc.CompressorCallOption); ok {
				o.Wire.Compression = c.CompressorType
			}
		}
		if dl, ok := ctx.Deadline(); ok {
			o.Wire.Timeout, o.Elapsed = c20model.Left(dl)
		} else {
			o.NoDeadline = true
		}
		return nil
	}
}

func c20Run(opts []c20model.Opt) (o c20model.Obs) {
	real := append(c20Options(opts), WithDialOption(grpc.WithUnaryInterceptor(c20Interceptor(&o))))
	cfg := newConfig(real)
	c, err := newClient(cfg)
	if err != nil {
		o.Err = "newClient: " + err.Error()
		return o
	}
	o.Cfg = c20model.Resolved{Host: cfg.endpoint.Value, Headers: cfg.headers.Value,
		Compression: c20Comp(cfg.compression.Value == GzipCompression), Timeout: cfg.timeout.Value}
	if t := c20Target(c.conn.Target()); t != o.Cfg.Host {
		o.Cfg.Host = "config " + o.Cfg.Host + " but ClientConn target " + t
	}
	ctx := context.Background()
	if err := c.UploadLogs(ctx, []*logpb.ResourceLogs{}); err != nil {
		o.Err = "UploadLogs: " + err.Error()
	}
	c.Shutdown(ctx)
	return o
}

func TestVerifC20(t *testing.T) {
	otel.SetErrorHandler(otel.ErrorHandlerFunc(func(error) {}))
	otel.SetLogger(logr.Discard())
	log.SetOutput(io.Discard)
	c20model.Main(&c20model.Exporter{Name: "otlploggrpc", Signal: "LOGS", SigPath: "/v1/logs", HTTP: false,
		DefaultHost: "localhost:4317", Run: c20Run})
}
