package trace

// C20, sdk/trace: NewBatchSpanProcessor (OTEL_BSP_* x WithMaxQueueSize / WithMaxExportBatchSize /
// WithBatchTimeout / WithExportTimeout), NewTracerProvider span limits (OTEL_SPAN_*_LIMIT,
// OTEL_EVENT_/OTEL_LINK_ATTRIBUTE_COUNT_LIMIT, OTEL_ATTRIBUTE_*_LIMIT x WithRawSpanLimits /
// WithSpanLimits) and sampler (OTEL_TRACES_SAMPLER[_ARG] x WithSampler): the cross product of
// value classes {absent, valid, zero, negative, non-numeric, huge, empty} per source is run on
// the real constructors under recover, the effective values are read in-package and compared
// with the accept sets of c20sdk.

import (
	"context"
	"errors"
	"fmt"
	"io"
	"log"
	"math"
	"os"
	"strings"
	"testing"
	"time"

	"github.com/go-logr/logr"

	"go.opentelemetry.io/otel"
	"go.opentelemetry.io/otel/sdk/internal/c20sdk"
	"go.opentelemetry.io/otel/trace"
	"verif/mc/enum"
)

type c20Exporter struct{ spans int }

func (e *c20Exporter) ExportSpans(_ context.Context, ss []ReadOnlySpan) error {
	e.spans += len(ss)
	return nil
}
func (e *c20Exporter) Shutdown(context.Context) error { return nil }

const c20SafetyNet = 10 * time.Second // real-time safety net only; hitting it is a cap, never a verdict

// ---------------------------------------------------------------------------- batch span processor

func c20BSP(r *enum.R) *c20sdk.Component {
	ms := int64(time.Millisecond)
	// no documented meaning for sizes / delays <= 0: negative is out of range (the property's
	// own example), zero is left unspecified (literal or ignored are both accepted)
	c := &c20sdk.Component{Name: "NewBatchSpanProcessor", Settings: []c20sdk.Setting{
		{Name: "max_queue_size", Default: DefaultMaxQueueSize, Sources: []c20sdk.Source{
			{Kind: "option", Alts: c20sdk.OptAlts(100, "unspec", "invalid", 0)},
			{Kind: "env", Env: "OTEL_BSP_MAX_QUEUE_SIZE", Alts: c20sdk.EnvAlts(1000, 50, 1, "unspec", "invalid")}}},
		{Name: "max_export_batch_size", Default: DefaultMaxExportBatchSize, Sources: []c20sdk.Source{
			{Kind: "option", Alts: c20sdk.OptAlts(20, "unspec", "invalid", 0)},
			{Kind: "env", Env: "OTEL_BSP_MAX_EXPORT_BATCH_SIZE", Alts: c20sdk.EnvAlts(50, 1000, 1, "unspec", "invalid")}}}, // the two queue sizes of the environment alphabet: a batch size EQUAL to the queue size (below and above the default batch size) is in range
		{Name: "schedule_delay", Default: DefaultScheduleDelay * ms, Sources: []c20sdk.Source{
			{Kind: "option", Alts: c20sdk.OptAlts(int64(7*time.Second), "unspec", "invalid", math.MaxInt64)},
			{Kind: "env", Env: "OTEL_BSP_SCHEDULE_DELAY", Alts: c20sdk.EnvAlts(1500, 250, ms, "unspec", "invalid")}}},
		{Name: "export_timeout", Default: DefaultExportTimeout * ms, Sources: []c20sdk.Source{
			{Kind: "option", Alts: c20sdk.OptAlts(int64(11*time.Second), "unspec", "invalid", math.MaxInt64)},
			{Kind: "env", Env: "OTEL_BSP_EXPORT_TIMEOUT", Alts: c20sdk.EnvAlts(2500, 750, ms, "unspec", "invalid")}}},
	}}
	// "it must be less than or equal to BatchSpanProcessorMaxQueueSize": what happens to a batch
	// size above a configured queue size is not stated; every queue size a present source
	// declares and the default batch size are accepted too.
	c.Relax = func(acc, declared [][]int64) [][]int64 {
		over := false
		for _, b := range acc[1] {
			for _, q := range declared[0] {
				over = over || b > q
			}
		}
		if over {
			acc[1] = append(append(acc[1], declared[0]...), DefaultMaxExportBatchSize)
		}
		return acc
	}
	sc := trace.NewSpanContext(trace.SpanContextConfig{TraceID: trace.TraceID{1}, SpanID: trace.SpanID{1}, TraceFlags: trace.FlagsSampled})
	c.Run = func(ch c20sdk.Choice, alt func(si, src int) *c20sdk.Alt) (res c20sdk.Result) {
		var opts []BatchSpanProcessorOption
		if a := alt(0, 0); a.Present {
			opts = append(opts, WithMaxQueueSize(int(a.N)))
		}
		if a := alt(1, 0); a.Present {
			opts = append(opts, WithMaxExportBatchSize(int(a.N)))
		}
		if a := alt(2, 0); a.Present {
			opts = append(opts, WithBatchTimeout(time.Duration(a.N)))
		}
		if a := alt(3, 0); a.Present {
			opts = append(opts, WithExportTimeout(time.Duration(a.N)))
		}
		exp := &c20Exporter{}
		var sp SpanProcessor
		func() {
			defer func() {
				if p := recover(); p != nil {
					res.Panic = fmt.Sprint(p)
				}
			}()
			sp = NewBatchSpanProcessor(exp, opts...)
		}()
		if res.Panic != "" {
			return res
		}
		bsp := sp.(*batchSpanProcessor)
		res.Values = []int64{int64(cap(bsp.queue)), int64(bsp.o.MaxExportBatchSize), int64(bsp.o.BatchTimeout), int64(bsp.o.ExportTimeout)}
		if cap(bsp.queue) != bsp.o.MaxQueueSize || cap(bsp.batch) != bsp.o.MaxExportBatchSize {
			res.Note = "capacities differ from options"
		}
		// the constructed processor is driven once and shut down; no goroutine survives the case
		func() {
			defer func() {
				if p := recover(); p != nil {
					res.Panic = "while driving the processor: " + fmt.Sprint(p)
				}
			}()
			sp.OnEnd(snapshot{spanContext: sc})
			ctx, cancel := context.WithTimeout(context.Background(), c20SafetyNet)
			err1 := sp.ForceFlush(ctx)
			err2 := sp.Shutdown(ctx)
			cancel()
			if errors.Is(err1, context.DeadlineExceeded) || errors.Is(err2, context.DeadlineExceeded) {
				r.Cap("ForceFlush/Shutdown of a constructed batch span processor hit the real-time safety net (not judged)")
			}
		}()
		return res
	}
	return c
}

// ---------------------------------------------------------------------------- span limits

// mode: "none" (no option), "raw" (WithRawSpanLimits), "legacy" (deprecated WithSpanLimits:
// "If any field of sl is zero or negative it will be replaced with the default value for that field").
func c20Limits(mode string) *c20sdk.Component {
	type field struct {
		name     string
		def      int64
		env, gen string
	}
	fields := []field{
		{"attribute_value_length_limit", DefaultAttributeValueLengthLimit, "OTEL_SPAN_ATTRIBUTE_VALUE_LENGTH_LIMIT", "OTEL_ATTRIBUTE_VALUE_LENGTH_LIMIT"},
		{"attribute_count_limit", DefaultAttributeCountLimit, "OTEL_SPAN_ATTRIBUTE_COUNT_LIMIT", "OTEL_ATTRIBUTE_COUNT_LIMIT"},
		{"event_count_limit", DefaultEventCountLimit, "OTEL_SPAN_EVENT_COUNT_LIMIT", ""},
		{"link_count_limit", DefaultLinkCountLimit, "OTEL_SPAN_LINK_COUNT_LIMIT", ""},
		{"attribute_per_event_count_limit", DefaultAttributePerEventCountLimit, "OTEL_EVENT_ATTRIBUTE_COUNT_LIMIT", ""},
		{"attribute_per_link_count_limit", DefaultAttributePerLinkCountLimit, "OTEL_LINK_ATTRIBUTE_COUNT_LIMIT", ""},
	}
	name := map[string]string{"none": "NewTracerProvider(span limits, no option)", "raw": "NewTracerProvider(WithRawSpanLimits)", "legacy": "NewTracerProvider(WithSpanLimits)"}[mode]
	c := &c20sdk.Component{Name: name}
	for _, f := range fields {
		s := c20sdk.Setting{Name: f.name, Default: f.def}
		switch mode {
		case "raw": // every field is taken literally: zero = none, negative = unlimited (documented)
			s.Sources = append(s.Sources, c20sdk.Source{Kind: "option", Alts: []c20sdk.Alt{
				{Class: "valid", Present: true, N: 9, Provides: true, Value: 9},
				{Class: "zero", Present: true, N: 0, Provides: true, Value: 0},
				{Class: "negative", Present: true, N: -3, Provides: true, Value: -3}}})
		case "legacy":
			s.Sources = append(s.Sources, c20sdk.Source{Kind: "option", Alts: []c20sdk.Alt{
				{Class: "valid", Present: true, N: 9, Provides: true, Value: 9},
				{Class: "zero", Present: true, N: 0, Provides: true, Value: f.def},
				{Class: "negative", Present: true, N: -3, Provides: true, Value: f.def}}})
		}
		// environment: zero and negative have the documented meaning of the SpanLimits fields
		// ... plus a value EQUAL to the default: an explicit signal-specific value must win over the
		// generic variable even when it happens to be the default
		envAlts := append(c20sdk.EnvAlts(7, 300, 1, "literal", "literal"),
			c20sdk.Alt{Class: "valid(equal to the default)", Present: true, Env: fmt.Sprint(f.def), Provides: true, Value: int64(f.def)})
		s.Sources = append(s.Sources, c20sdk.Source{Kind: "env", Env: f.env, Alts: envAlts})
		if f.gen != "" {
			s.Sources = append(s.Sources, c20sdk.Source{Kind: "generic-env", Env: f.gen, Alts: c20sdk.EnvAlts(5, 200, 1, "literal", "literal")})
		}
		c.Settings = append(c.Settings, s)
	}
	c.Run = func(ch c20sdk.Choice, alt func(si, src int) *c20sdk.Alt) (res c20sdk.Result) {
		var opts []TracerProviderOption
		if mode != "none" {
			sl := SpanLimits{
				AttributeValueLengthLimit:   int(alt(0, 0).N),
				AttributeCountLimit:         int(alt(1, 0).N),
				EventCountLimit:             int(alt(2, 0).N),
				LinkCountLimit:              int(alt(3, 0).N),
				AttributePerEventCountLimit: int(alt(4, 0).N),
				AttributePerLinkCountLimit:  int(alt(5, 0).N),
			}
			if mode == "raw" {
				opts = append(opts, WithRawSpanLimits(sl))
			} else {
				opts = append(opts, WithSpanLimits(sl))
			}
		}
		defer func() {
			if p := recover(); p != nil {
				res.Panic = fmt.Sprint(p)
			}
		}()
		tp := NewTracerProvider(opts...)
		l := tp.spanLimits
		res.Values = []int64{int64(l.AttributeValueLengthLimit), int64(l.AttributeCountLimit), int64(l.EventCountLimit), int64(l.LinkCountLimit),
			int64(l.AttributePerEventCountLimit), int64(l.AttributePerLinkCountLimit)}
		tp.Shutdown(context.Background())
		return res
	}
	return c
}

// ---------------------------------------------------------------------------- sampler

type c20Str struct {
	class string
	set   bool
	lit   string
}

type c20SamplerOpt struct {
	class   string
	present bool
	s       Sampler
}

func c20SamplerSig(s Sampler) string {
	var b strings.Builder
	b.WriteString(s.Description())
	for _, id := range []trace.TraceID{{0x00, 0, 0, 0, 0, 0, 0, 0, 0x00, 1}, {0xff, 0, 0, 0, 0, 0, 0, 0, 0x3f, 0xff, 0xff, 0xff, 0xff, 0xff, 0xff, 0xff}, {1, 0, 0, 0, 0, 0, 0, 0, 0x80}, {2, 0, 0, 0, 0, 0, 0, 0, 0xff, 0xff, 0xff, 0xff, 0xff, 0xff, 0xff, 0xff}} {
		res := s.ShouldSample(SamplingParameters{ParentContext: context.Background(), TraceID: id, Name: "x"})
		fmt.Fprintf(&b, "/%d", res.Decision)
	}
	return b.String()
}

func c20Sampler(r *enum.R) {
	names := []c20Str{{"absent", false, ""}, {"always_on", true, "always_on"}, {"always_off", true, "always_off"}, {"traceidratio", true, "traceidratio"},
		{"parentbased_always_on", true, "parentbased_always_on"}, {"parentbased_always_off", true, "parentbased_always_off"},
		{"parentbased_traceidratio", true, "parentbased_traceidratio"}, {"invalid", true, "garbage"}, {"empty", true, ""}}
	args := []c20Str{{"absent", false, ""}, {"valid", true, "0.25"}, {"zero", true, "0"}, {"one", true, "1"}, {"negative", true, "-0.5"},
		{"above-one", true, "1.5"}, {"non-numeric", true, "abc"}, {"huge", true, "1e400"}, {"nan", true, "NaN"}, {"inf", true, "Inf"}, {"empty", true, ""}}
	argRatio := map[string]float64{"valid": 0.25, "zero": 0, "one": 1} // declared meaning of the valid literals
	optAlts := []c20SamplerOpt{{"absent", false, nil}, {"valid", true, NeverSample()}, {"valid", true, TraceIDRatioBased(0.5)}, {"nil", true, nil}}
	def := ParentBased(AlwaysSample())
	r.Bound("sampler_alternatives(option,OTEL_TRACES_SAMPLER,OTEL_TRACES_SAMPLER_ARG)", []int{len(optAlts), len(names), len(args)})

	// accept: the samplers the property allows. WithSampler documents: the option overrides the
	// environment; unset / invalid / unsupported environment => ParentBased(AlwaysSample). An
	// unparsable or out-of-range ratio is "ignored in favour of defaults": the documented default
	// ratio 1.0 of the named sampler, or the default sampler, are both accepted.
	accept := func(o, n, a int) []Sampler {
		if optAlts[o].present && optAlts[o].s != nil {
			return []Sampler{optAlts[o].s}
		}
		wrap := func(s Sampler) Sampler { return s }
		switch names[n].class {
		case "always_on":
			return []Sampler{AlwaysSample()}
		case "always_off":
			return []Sampler{NeverSample()}
		case "parentbased_always_on":
			return []Sampler{ParentBased(AlwaysSample())}
		case "parentbased_always_off":
			return []Sampler{ParentBased(NeverSample())}
		case "traceidratio":
		case "parentbased_traceidratio":
			wrap = func(s Sampler) Sampler { return ParentBased(s) }
		default:
			return []Sampler{def}
		}
		if !args[a].set {
			return []Sampler{wrap(TraceIDRatioBased(1))}
		}
		if v, ok := argRatio[args[a].class]; ok {
			return []Sampler{wrap(TraceIDRatioBased(v))}
		}
		return []Sampler{wrap(TraceIDRatioBased(1)), def}
	}
	eval := func(o, n, a int) (got string, panicked string, ok bool, want []string) {
		for k, v := range map[string]c20Str{"OTEL_TRACES_SAMPLER": names[n], "OTEL_TRACES_SAMPLER_ARG": args[a]} {
			if v.set {
				os.Setenv(k, v.lit)
			} else {
				os.Unsetenv(k)
			}
		}
		var opts []TracerProviderOption
		if optAlts[o].present {
			opts = append(opts, WithSampler(optAlts[o].s))
		}
		r.Eval()
		func() {
			defer func() {
				if p := recover(); p != nil {
					panicked = fmt.Sprint(p)
				}
			}()
			tp := NewTracerProvider(opts...)
			got = c20SamplerSig(tp.sampler)
			tp.Shutdown(context.Background())
		}()
		for _, s := range accept(o, n, a) {
			sig := c20SamplerSig(s)
			want = append(want, sig)
			ok = ok || sig == got
		}
		return got, panicked, ok && panicked == "", want
	}
	for o := range optAlts {
		for n := range names {
			for a := range args {
				if r.Expired() {
					return
				}
				if !r.Want() {
					continue
				}
				r.Count("configuration_points", 1)
				got, pan, ok, _ := eval(o, n, a)
				r.Outcome("sampler " + got + pan)
				desc := func(o, n, a int) (string, map[string]any) {
					var parts []string
					full := map[string]any{}
					if optAlts[o].present {
						parts = append(parts, "option="+optAlts[o].class)
						if optAlts[o].s != nil {
							full["WithSampler"] = optAlts[o].s.Description()
						} else {
							full["WithSampler"] = nil
						}
					}
					if names[n].set {
						parts = append(parts, "OTEL_TRACES_SAMPLER="+names[n].class)
						full["OTEL_TRACES_SAMPLER"] = names[n].lit
					}
					if args[a].set {
						parts = append(parts, "ARG="+args[a].class)
						full["OTEL_TRACES_SAMPLER_ARG"] = args[a].lit
					}
					if len(parts) == 0 {
						parts = []string{"all sources absent"}
					}
					return strings.Join(parts, " "), full
				}
				r.Sample(func() any {
					_, full := desc(o, n, a)
					return map[string]any{"component": "NewTracerProvider(sampler)", "configuration": full, "effective": got}
				})
				if ok {
					continue
				}
				here := r.Here()
				// minimise: drop the option, then the argument, then the name while it still fails
				mo, mn, ma := o, n, a
				bad := func(o, n, a int) bool {
					_, p2, ok2, _ := eval(o, n, a)
					return !ok2 && (p2 != "") == (pan != "")
				}
				if mo != 0 && bad(0, mn, ma) {
					mo = 0
				}
				if ma != 0 && bad(mo, mn, 0) {
					ma = 0
				}
				if mn != 0 && bad(mo, 0, ma) {
					mn = 0
				}
				if names[mn].class == "parentbased_traceidratio" && bad(mo, 3, ma) {
					mn = 3 // the plain ratio sampler shows the same failure: one key for both
				}
				g2, p2, _, w2 := eval(mo, mn, ma)
				key, full := desc(mo, mn, ma)
				if pan != "" {
					r.Fail("panic|NewTracerProvider(sampler)|"+key, map[string]any{"minimal_configuration": full, "panic": p2}, here,
						"NewTracerProvider with %s panicked: %s", key, p2)
				} else {
					r.Fail("effective|NewTracerProvider(sampler)|"+key, map[string]any{"minimal_configuration": full, "effective": g2, "reference_allows": w2}, here,
						"NewTracerProvider with %s: effective sampler (description/decisions on 4 trace IDs) %s, reference allows %v", key, g2, w2)
				}
			}
		}
	}
}

// ---------------------------------------------------------------------------- test

func TestVerifC20(t *testing.T) {
	otel.SetErrorHandler(otel.ErrorHandlerFunc(func(error) {}))
	otel.SetLogger(logr.Discard())
	log.SetOutput(io.Discard)
	bspShards := c20sdk.New(nil, c20BSP(nil)).Shards(2)
	jobs := []string{"limits:none", "limits:raw", "limits:legacy", "sampler"}
	for i := range bspShards {
		jobs = append(jobs, fmt.Sprintf("bsp:%02d", i))
	}
	enum.Jobs(jobs, func(job string) {
		r := enum.Start("C20", "sdktrace")
		defer r.Finish()
		c20sdk.ClearEnv()
		r.Section(job)
		r.Bound("value_classes", "option {absent, valid, zero, negative[, huge]} x env {absent, valid, valid2, zero, negative, non-numeric, huge, empty}")
		switch {
		case job == "sampler":
			c20Sampler(r)
		case strings.HasPrefix(job, "bsp:"):
			// quick: every point with at most 3 of the 8 sources set; thorough: the full cross product
			var i int
			fmt.Sscanf(job, "bsp:%d", &i)
			x := c20sdk.New(r, c20BSP(r))
			k := enum.Pick(r, 3, 8)
			r.Bound("bsp_max_non_simplest_sources(of 8)", k)
			r.Bound("bsp_points", x.Points(k))
			x.Enumerate(k, bspShards[i])
		case strings.HasPrefix(job, "limits:"):
			x := c20sdk.New(r, c20Limits(strings.TrimPrefix(job, "limits:")))
			// at most k sources away from their simplest alternative; k = 4 covers both
			// two-variable fields (specific + generic) with their full joint product
			k := 3
			if job == "limits:none" {
				k = enum.Pick(r, 3, 4)
			}
			r.Bound(job+"_max_non_simplest_sources", k)
			r.Bound(job+"_points", x.Points(k))
			x.Enumerate(k, nil)
		}
	})
}
