package trace

// C20, sdk/trace: NewBatchSpanProcessor (OTEL_BSP_* x WithMaxQueueSize / WithMaxExportBatchSize /
// WithBatchTimeout / WithExportTimeout), NewTracerProvider span limits (OTEL_SPAN_*_LIMIT,
// OTEL_EVENT_/OTEL_LINK_ATTRIBUTE_COUNT_LIMIT, OTEL_ATTRIBUTE_*_LIMIT x WithRawSpanLimits /
// WithSpanLimits) and sampler (OTEL_TRACES_SAMPLER[_ARG] x WithSampler): the cross product of
// value classes {absent, valid, zero, negative, non-numeric, huge, empty} per source is run on
// the real constructors under recover, the effective values are read in-package and compared
// with the accept sets of c20sdk.

import (
	"context"
	"errors"
	"fmt"
	"io"
	"log"
	"math"
	"os"
	"strings"
	"testing"
	"time"

	"github.com/go-logr/logr"

	"go.opentelemetry.io/otel"
	"go.opentelemetry.io/otel/sdk/internal/c20sdk"
	"go.opentelemetry.io/otel/trace"
	"verif/mc/enum"
)

type c20Exporter struct{ spans int }

func (e *c20Exporter) ExportSpans(_ context.Context, ss []ReadOnlySpan) error {
	e.spans += len(ss)
	return nil
}
func (e *c20Exporter) Shutdown(context.Context) error { return nil }

const c20SafetyNet = 10 * time.Second // real-time safety net only; hitting it is a cap, never a verdict

// ---------------------------------------------------------------------------- batch span processor

func c20BSP(r *enum.R) *c20sdk.Component {
	ms := int64(time.Millisecond)
	// no documented meaning for sizes / delays <= 0: negative is out of range (the property's
	// own example), zero is left unspecified (literal or ignored are both accepted)
	c := &c20sdk.Component{Name: "NewBatchSpanProcessor", Settings: []c20sdk.Setting{
		{Name: "max_queue_size", Default: DefaultMaxQueueSize, Sources: []c20sdk.Source{
			{Kind: "option", Alts: c20sdk.OptAlts(100, "unspec", "invalid", 0)},
			{Kind: "env", Env: "OTEL_BSP_MAX_QUEUE_SIZE", Alts: c20sdk.EnvAlts(1000, 50, 1, "unspec", "invalid")}}},
		{Name: "max_export_batch_size", Default: DefaultMaxExportBatchSize, Sources: []c20sdk.Source{
			{Kind: "option", Alts: c20sdk.OptAlts(20, "unspec", "invalid", 0)},
			{Kind: "env", Env: "OTEL_BSP_MAX_EXPORT_BATCH_SIZE", Alts: c20sdk.EnvAlts(50, 1000, 1, "unspec", "invalid")}}}, // the two queue sizes of the environment alphabet: a batch size EQUAL to the queue size (below and above the default batch size) is in range
		{Name: "schedule_delay", Default: DefaultScheduleDelay * ms, Sources: []c20sdk.Source{
			{Kind: "option", Alts: c20sdk.OptAlts(int64(7*time.Second), "unspec", "invalid", math.MaxInt64)},
			{Kind: "env", Env: "OTEL_BSP_SCHEDULE_DELAY", Alts: c20sdk.EnvAlts(1500, 250, ms, "unspec", "invalid")}}},
		{Name: "export_timeout", Default: DefaultExportTimeout * ms, Sources: []c20sdk.Source{
			{Kind: "option", Alts: c20sdk.OptAlts(int64(11*time.Second), "unspec", "invalid", math.MaxInt64)},
			{Kind: "env", Env: "OTEL_BSP_EXPORT_TIMEOUT", Alts: c20sdk.EnvAlts(2500, 750, ms, "unspec", "invalid")}}},
	}}
	// "it must be less than or equal to BatchSpanProcessorMaxQueueSize": what happens to a batch
	// size above a configured queue size is not stated; every queue size a present source
	// declares and the default batch size are accepted too.
	c.Relax = func(acc, declared [][]int64) [][]int64 {
		over := false
		for _, b := range acc[1] {
			for _, q := range declared[0] {
				over = over || b > q
			}
		}
		if over {
			acc[1] = append(append(acc[1], declared[0]...), DefaultMaxExportBatchSize)
		}
		return acc
	}
	sc := trace.NewSpanContext(trace.SpanContextConfig{TraceID: trace.TraceID{1}, SpanID: trace.SpanID{1}, TraceFlags: trace.FlagsSampled})
	c.Run = func(ch c20sdk.Choice, alt func(si, src int) *c20sdk.Alt) c20sdk.Result {
		return c.RunSteps(c20sdk.StepsOf(4, alt))
	}
	c.RunSteps = func(steps []c20sdk.Step) (res c20sdk.Result) {
		var opts []BatchSpanProcessorOption
		for _, st := range steps {
			switch st.Setting {
			case 0:
				opts = append(opts, WithMaxQueueSize(int(st.N)))
			case 1:
				opts = append(opts, WithMaxExportBatchSize(int(st.N)))
			case 2:
				opts = append(opts, WithBatchTimeout(time.Duration(st.N)))
			case 3:
				opts = append(opts, WithExportTimeout(time.Duration(st.N)))
			}
		}
		exp := &c20Exporter{}
		var sp SpanProcessor
		func() {
			defer func() {
				if p := recover(); p != nil {
					res.Panic = fmt.Sprint(p)
				}
			}()
			sp = NewBatchSpanProcessor(exp, opts...)
		}()
		if res.Panic != "" {
			return res
		}
		bsp := sp.(*batchSpanProcessor)
		res.Values = []int64{int64(cap(bsp.queue)), int64(bsp.o.MaxExportBatchSize), int64(bsp.o.BatchTimeout), int64(bsp.o.ExportTimeout)}
		if cap(bsp.queue) != bsp.o.MaxQueueSize || cap(bsp.batch) != bsp.o.MaxExportBatchSize {
			res.Note = "capacities differ from options"
		}
		// the constructed processor is driven once and shut down; no goroutine survives the case
		func() {
			defer func() {
				if p := recover(); p != nil {
					res.Panic = "while driving the processor: " + fmt.Sprint(p)
				}
			}()
			sp.OnEnd(snapshot{spanContext: sc})
			ctx, cancel := context.WithTimeout(context.Background(), c20SafetyNet)
			err1 := sp.ForceFlush(ctx)
			err2 := sp.Shutdown(ctx)
			cancel()
			if errors.Is(err1, context.DeadlineExceeded) || errors.Is(err2, context.DeadlineExceeded) {
				r.Cap("ForceFlush/Shutdown of a constructed batch span processor hit the real-time safety net (not judged)")
			}
		}()
		return res
	}
	return c
}

// ---------------------------------------------------------------------------- span limits

// mode: "none" (no option), "raw" (WithRawSpanLimits), "legacy" (deprecated WithSpanLimits:
// "If any field of sl is zero or negative it will be replaced with the default value for that field").
func c20Limits(mode string) *c20sdk.Component {
	type field struct {
		name     string
		def      int64
		env, gen string
	}
	fields := []field{
		{"attribute_value_length_limit", DefaultAttributeValueLengthLimit, "OTEL_SPAN_ATTRIBUTE_VALUE_LENGTH_LIMIT", "OTEL_ATTRIBUTE_VALUE_LENGTH_LIMIT"},
		{"attribute_count_limit", DefaultAttributeCountLimit, "OTEL_SPAN_ATTRIBUTE_COUNT_LIMIT", "OTEL_ATTRIBUTE_COUNT_LIMIT"},
		{"event_count_limit", DefaultEventCountLimit, "OTEL_SPAN_EVENT_COUNT_LIMIT", ""},
		{"link_count_limit", DefaultLinkCountLimit, "OTEL_SPAN_LINK_COUNT_LIMIT", ""},
		{"attribute_per_event_count_limit", DefaultAttributePerEventCountLimit, "OTEL_EVENT_ATTRIBUTE_COUNT_LIMIT", ""},
		{"attribute_per_link_count_limit", DefaultAttributePerLinkCountLimit, "OTEL_LINK_ATTRIBUTE_COUNT_LIMIT", ""},
	}
	name := map[string]string{"none": "NewTracerProvider(span limits, no option)", "raw": "NewTracerProvider(WithRawSpanLimits)", "legacy": "NewTracerProvider(WithSpanLimits)"}[mode]
	c := &c20sdk.Component{Name: name}
	for _, f := range fields {
		s := c20sdk.Setting{Name: f.name, Default: f.def}
		switch mode {
		case "raw": // every field is taken literally: zero = none, negative = unlimited (documented)
			s.Sources = append(s.Sources, c20sdk.Source{Kind: "option", Alts: []c20sdk.Alt{
				{Class: "valid", Present: true, N: 9, Provides: true, Value: 9},
				{Class: "zero", Present: true, N: 0, Provides: true, Value: 0},
				{Class: "negative", Present: true, N: -3, Provides: true, Value: -3}}})
		case "legacy":
			s.Sources = append(s.Sources, c20sdk.Source{Kind: "option", Alts: []c20sdk.Alt{
				{Class: "valid", Present: true, N: 9, Provides: true, Value: 9},
				{Class: "zero", Present: true, N: 0, Provides: true, Value: f.def},
				{Class: "negative", Present: true, N: -3, Provides: true, Value: f.def}}})
		}
		// environment: zero and negative have the documented meaning of the SpanLimits fields
		// ... plus a value EQUAL to the default: an explicit signal-specific value must win over the
		// generic variable even when it happens to be the default
		envAlts := append(c20sdk.EnvAlts(7, 300, 1, "literal", "literal"),
			c20sdk.Alt{Class: "valid(equal to the default)", Present: true, Env: fmt.Sprint(f.def), Provides: true, Value: int64(f.def)})
		s.Sources = append(s.Sources, c20sdk.Source{Kind: "env", Env: f.env, Alts: envAlts})
		if f.gen != "" {
			s.Sources = append(s.Sources, c20sdk.Source{Kind: "generic-env", Env: f.gen, Alts: c20sdk.EnvAlts(5, 200, 1, "literal", "literal")})
		}
		c.Settings = append(c.Settings, s)
	}
	c.Run = func(ch c20sdk.Choice, alt func(si, src int) *c20sdk.Alt) (res c20sdk.Result) {
		var opts []TracerProviderOption
		if mode != "none" {
			sl := SpanLimits{
				AttributeValueLengthLimit:   int(alt(0, 0).N),
				AttributeCountLimit:         int(alt(1, 0).N),
				EventCountLimit:             int(alt(2, 0).N),
				LinkCountLimit:              int(alt(3, 0).N),
				AttributePerEventCountLimit: int(alt(4, 0).N),
				AttributePerLinkCountLimit:  int(alt(5, 0).N),
			}
			if mode == "raw" {
				opts = append(opts, WithRawSpanLimits(sl))
			} else {
				opts = append(opts, WithSpanLimits(sl))
			}
		}
		defer func() {
			if p := recover(); p != nil {
				res.Panic = fmt.Sprint(p)
			}
		}()
		tp := NewTracerProvider(opts...)
		l := tp.spanLimits
		res.Values = []int64{int64(l.AttributeValueLengthLimit), int64(l.AttributeCountLimit), int64(l.EventCountLimit), int64(l.LinkCountLimit),
			int64(l.AttributePerEventCountLimit), int64(l.AttributePerLinkCountLimit)}
		tp.Shutdown(context.Background())
		return res
	}
	return c
}

// ---------------------------------------------------------------------------- sampler

type c20Str struct {
	class string
	set   bool
	lit   string
}

type c20SamplerOpt struct {
	class   string
	present bool
	s       Sampler
}

func c20SamplerSig(s Sampler) string {
	var b strings.Builder
	b.WriteString(s.Description())
	for _, id := range []trace.TraceID{{0x00, 0, 0, 0, 0, 0, 0, 0, 0x00, 1}, {0xff, 0, 0, 0, 0, 0, 0, 0, 0x3f, 0xff, 0xff, 0xff, 0xff, 0xff, 0xff, 0xff}, {1, 0, 0, 0, 0, 0, 0, 0, 0x80}, {2, 0, 0, 0, 0, 0, 0, 0, 0xff, 0xff, 0xff, 0xff, 0xff, 0xff, 0xff, 0xff}} {
		res := s.ShouldSample(SamplingParameters{ParentContext: context.Background(), TraceID: id, Name: "x"})
		fmt.Fprintf(&b, "/%d", res.Decision)
	}
	return b.String()
}

func c20Sampler(r *enum.R) {
	names := []c20Str{{"absent", false, ""}, {"always_on", true, "always_on"}, {"always_off", true, "always_off"}, {"traceidratio", true, "traceidratio"},
		{"parentbased_always_on", true, "parentbased_always_on"}, {"parentbased_always_off", true, "parentbased_always_off"},
		{"parentbased_traceidratio", true, "parentbased_traceidratio"}, {"invalid", true, "garbage"}, {"empty", true, ""}}
	args := []c20Str{{"absent", false, ""}, {"valid", true, "0.25"}, {"zero", true, "0"}, {"one", true, "1"}, {"negative", true, "-0.5"},
		{"above-one", true, "1.5"}, {"non-numeric", true, "abc"}, {"huge", true, "1e400"}, {"nan", true, "NaN"}, {"inf", true, "Inf"}, {"empty", true, ""}}
	argRatio := map[string]float64{"valid": 0.25, "zero": 0, "one": 1} // declared meaning of the valid literals
	optAlts := []c20SamplerOpt{{"absent", false, nil}, {"valid", true, NeverSample()}, {"valid", true, TraceIDRatioBased(0.5)}, {"nil", true, nil}}
	def := ParentBased(AlwaysSample())
	r.Bound("sampler_alternatives(option,OTEL_TRACES_SAMPLER,OTEL_TRACES_SAMPLER_ARG)", []int{len(optAlts), len(names), len(args)})

	// accept: the samplers the property allows. WithSampler documents: the option overrides the
	// environment; unset / invalid / unsupported environment => ParentBased(AlwaysSample). An
	// unparsable or out-of-range ratio is "ignored in favour of defaults": the documented default
	// ratio 1.0 of the named sampler, or the default sampler, are both accepted.
	accept := func(o, n, a int) []Sampler {
		if optAlts[o].present && optAlts[o].s != nil {
			return []Sampler{optAlts[o].s}
		}
		wrap := func(s Sampler) Sampler { return s }
		switch names[n].class {
		case "always_on":
			return []Sampler{AlwaysSample()}
		case "always_off":
			return []Sampler{NeverSample()}
		case "parentbased_always_on":
			return []Sampler{ParentBased(AlwaysSample())}
		case "parentbased_always_off":
			return []Sampler{ParentBased(NeverSample())}
		case "traceidratio":
		case "parentbased_traceidratio":
			wrap = func(s Sampler) Sampler { return ParentBased(s) }
		default:
			return []Sampler{def}
		}
		if !args[a].set {
			return []Sampler{wrap(TraceIDRatioBased(1))}
		}
		if v, ok := argRatio[args[a].class]; ok {
			return []Sampler{wrap(TraceIDRatioBased(v))}
		}
		return []Sampler{wrap(TraceIDRatioBased(1)), def}
	}
	eval := func(o, n, a int) (got string, panicked string, ok bool, want []string) {
		for k, v := range map[string]c20Str{"OTEL_TRACES_SAMPLER": names[n], "OTEL_TRACES_SAMPLER_ARG": args[a]} {
			if v.set {
				os.Setenv(k, v.lit)
			} else {
				os.Unsetenv(k)
			}
		}
		var opts []TracerProviderOption
		if optAlts[o].present {
			opts = append(opts, WithSampler(optAlts[o].s))
		}
		r.Eval()
		func() {
			defer func() {
				if p := recover(); p != nil {
					panicked = fmt.Sprint(p)
				}
			}()
			tp := NewTracerProvider(opts...)
			got = c20SamplerSig(tp.sampler)
			tp.Shutdown(context.Background())
		}()
		for _, s := range accept(o, n, a) {
			sig := c20SamplerSig(s)
			want = append(want, sig)
			ok = ok || sig == got
		}
		return got, panicked, ok && panicked == "", want
	}
	for o := range optAlts {
		for n := range names {
			for a := range args {
				if r.Expired() {
					return
				}
				if !r.Want() {
					continue
				}
				r.Count("configuration_points", 1)
				got, pan, ok, _ := eval(o, n, a)
				r.Outcome("sampler " + got + pan)
				desc := func(o, n, a int) (string, map[string]any) {
					var parts []string
					full := map[string]any{}
					if optAlts[o].present {
						parts = append(parts, "option="+optAlts[o].class)
						if optAlts[o].s != nil {
							full["WithSampler"] = optAlts[o].s.Description()
						} else {
							full["WithSampler"] = nil
						}
					}
					if names[n].set {
						parts = append(parts, "OTEL_TRACES_SAMPLER="+names[n].class)
						full["OTEL_TRACES_SAMPLER"] = names[n].lit
					}
					if args[a].set {
						parts = append(parts, "ARG="+args[a].class)
						full["OTEL_TRACES_SAMPLER_ARG"] = args[a].lit
					}
					if len(parts) == 0 {
						parts = []string{"all sources absent"}
					}
					return strings.Join(parts, " "), full
				}
				r.Sample(func() any {
					_, full := desc(o, n, a)
					return map[string]any{"component": "NewTracerProvider(sampler)", "configuration": full, "effective": got}
				})
				if ok {
					continue
				}
				here := r.Here()
				// minimise: drop the option, then the argument, then the name while it still fails
				mo, mn, ma := o, n, a
				bad := func(o, n, a int) bool {
					_, p2, ok2, _ := eval(o, n, a)
					return !ok2 && (p2 != "") == (pan != "")
				}
				if mo != 0 && bad(0, mn, ma) {
					mo = 0
				}
				if ma != 0 && bad(mo, mn, 0) {
					ma = 0
				}
				if mn != 0 && bad(mo, 0, ma) {
					mn = 0
				}
				if names[mn].class == "parentbased_traceidratio" && bad(mo, 3, ma) {
					mn = 3 // the plain ratio sampler shows the same failure: one key for both
				}
				g2, p2, _, w2 := eval(mo, mn, ma)
				key, full := desc(mo, mn, ma)
				if pan != "" {
					r.Fail("panic|NewTracerProvider(sampler)|"+key, map[string]any{"minimal_configuration": full, "panic": p2}, here,
						"NewTracerProvider with %s panicked: %s", key, p2)
				} else {
					r.Fail("effective|NewTracerProvider(sampler)|"+key, map[string]any{"minimal_configuration": full, "effective": g2, "reference_allows": w2}, here,
						"NewTracerProvider with %s: effective sampler (description/decisions on 4 trace IDs) %s, reference allows %v", key, g2, w2)
				}
			}
		}
	}
}

// ---------------------------------------------------------------------------- jobs "order" and "foreign"

// Variables that are no source of the batch SPAN processor: the log batch processor's, the periodic
// reader's, the exporters' timeouts. Every value is a valid number that differs from every default
// and every value of the alphabets.
var c20ForeignBSP = []c20sdk.KV{
	{"OTEL_BLRP_MAX_QUEUE_SIZE", "333"}, {"OTEL_BLRP_MAX_EXPORT_BATCH_SIZE", "33"}, {"OTEL_BLRP_SCHEDULE_DELAY", "3333"}, {"OTEL_BLRP_EXPORT_TIMEOUT", "4444"},
	{"OTEL_METRIC_EXPORT_INTERVAL", "3333"}, {"OTEL_METRIC_EXPORT_TIMEOUT", "4444"},
	{"OTEL_EXPORTER_OTLP_TIMEOUT", "4444"}, {"OTEL_EXPORTER_OTLP_TRACES_TIMEOUT", "4444"},
	{"OTEL_BSP_QUEUE_SIZE", "333"}, {"OTEL_BSP_MAX_BATCH_SIZE", "33"}, {"OTEL_BSP_BATCH_TIMEOUT", "3333"}, {"OTEL_BSP_TIMEOUT", "4444"}, // near misses
	{"otel_bsp_max_queue_size", "333"}, {"OTEL_BSP_SCHEDULE_DELAY_MILLIS", "3333"}, {"OTEL_BSP_EXPORT_TIMEOUT_MILLIS", "4444"},
}

// Variables that are no source of the SPAN limits: the log record limits, near misses.
var c20ForeignLimits = []c20sdk.KV{
	{"OTEL_LOGRECORD_ATTRIBUTE_COUNT_LIMIT", "3"}, {"OTEL_LOGRECORD_ATTRIBUTE_VALUE_LENGTH_LIMIT", "3"},
	{"OTEL_SPAN_ATTRIBUTE_LIMIT", "3"}, {"OTEL_SPAN_ATTRIBUTE_COUNT", "3"}, {"OTEL_SPAN_EVENT_LIMIT", "3"}, {"OTEL_SPAN_LINK_LIMIT", "3"},
	{"OTEL_EVENT_COUNT_LIMIT", "3"}, {"OTEL_LINK_COUNT_LIMIT", "3"}, {"OTEL_ATTRIBUTE_LIMIT", "3"}, {"OTEL_ATTRIBUTE_VALUE_LIMIT", "3"},
	{"otel_span_attribute_count_limit", "3"}, {"OTEL_BSP_MAX_QUEUE_SIZE", "3"},
}

// c20LimitsOrder: two limit options in one option list, every combination of WithRawSpanLimits /
// WithSpanLimits, both orders of two all-valid structs, plus a deprecated WithSpanLimits with
// zero fields last ("replaced with the default value for that field"), with the eight
// variables unset / all set: the provider carries exactly what the LAST option says.
func c20LimitsOrder(r *enum.R) {
	vec := func(l SpanLimits) []int {
		return []int{l.AttributeValueLengthLimit, l.AttributeCountLimit, l.EventCountLimit, l.LinkCountLimit, l.AttributePerEventCountLimit, l.AttributePerLinkCountLimit}
	}
	mk := func(b int) SpanLimits {
		return SpanLimits{AttributeValueLengthLimit: b + 1, AttributeCountLimit: b + 2, EventCountLimit: b + 3, LinkCountLimit: b + 4, AttributePerEventCountLimit: b + 5, AttributePerLinkCountLimit: b + 6}
	}
	dflt := SpanLimits{AttributeValueLengthLimit: DefaultAttributeValueLengthLimit, AttributeCountLimit: DefaultAttributeCountLimit, EventCountLimit: DefaultEventCountLimit,
		LinkCountLimit: DefaultLinkCountLimit, AttributePerEventCountLimit: DefaultAttributePerEventCountLimit, AttributePerLinkCountLimit: DefaultAttributePerLinkCountLimit}
	type lim struct {
		name  string
		sl    SpanLimits
		raw   bool
		means SpanLimits
	}
	alts := []lim{{"WithRawSpanLimits(a)", mk(10), true, mk(10)}, {"WithRawSpanLimits(b)", mk(20), true, mk(20)},
		{"WithSpanLimits(a)", mk(10), false, mk(10)}, {"WithSpanLimits(b)", mk(20), false, mk(20)},
		{"WithRawSpanLimits(zero)", SpanLimits{}, true, SpanLimits{}}, {"WithSpanLimits(zero)", SpanLimits{}, false, dflt}}
	vars := []string{"OTEL_SPAN_ATTRIBUTE_VALUE_LENGTH_LIMIT", "OTEL_ATTRIBUTE_VALUE_LENGTH_LIMIT", "OTEL_SPAN_ATTRIBUTE_COUNT_LIMIT", "OTEL_ATTRIBUTE_COUNT_LIMIT",
		"OTEL_SPAN_EVENT_COUNT_LIMIT", "OTEL_SPAN_LINK_COUNT_LIMIT", "OTEL_EVENT_ATTRIBUTE_COUNT_LIMIT", "OTEL_LINK_ATTRIBUTE_COUNT_LIMIT"}
	r.Bound("order_limits_options", []string{"WithRawSpanLimits(a)", "WithRawSpanLimits(b)", "WithSpanLimits(a)", "WithSpanLimits(b)", "WithRawSpanLimits(zero)", "WithSpanLimits(zero)"})
	r.Bound("order_limits_lists", "every ordered pair of two different options x {variables unset, all eight set to 7}")
	for envState := 0; envState <= 1; envState++ {
		for _, v := range vars {
			if envState == 1 {
				os.Setenv(v, "7")
			} else {
				os.Unsetenv(v)
			}
		}
		for i, a := range alts {
			for j, b := range alts {
				if i == j {
					continue
				}
				if r.Expired() {
					return
				}
				if !r.Want() {
					continue
				}
				r.Count("configuration_points", 1)
				r.Eval()
				var got []int
				pan := ""
				func() {
					defer func() {
						if p := recover(); p != nil {
							pan = fmt.Sprint(p)
						}
					}()
					var opts []TracerProviderOption
					for _, l := range []lim{a, b} {
						if l.raw {
							opts = append(opts, WithRawSpanLimits(l.sl))
						} else {
							opts = append(opts, WithSpanLimits(l.sl))
						}
					}
					tp := NewTracerProvider(opts...)
					got = vec(tp.spanLimits)
					tp.Shutdown(context.Background())
				}()
				r.Outcome(fmt.Sprint("limits order ", got, pan))
				cas := map[string]any{"component": "NewTracerProvider", "options": []string{a.name, b.name}, "variables": []string{"unset", "all eight = 7"}[envState], "effective": got, "panic": pan, "reference": vec(b.means)}
				r.Sample(func() any { return cas })
				if pan != "" {
					r.FailHere("panic|NewTracerProvider|order span limits", cas, "NewTracerProvider(%s, %s) panicked: %s", a.name, b.name, pan)
				} else if fmt.Sprint(got) != fmt.Sprint(vec(b.means)) {
					kind := map[bool]string{true: "WithRawSpanLimits", false: "WithSpanLimits"}
					r.FailHere("order|NewTracerProvider|"+kind[a.raw]+","+kind[b.raw], cas, "NewTracerProvider(%s, %s): effective span limits %v, the last option asks for %v", a.name, b.name, got, vec(b.means))
				}
			}
		}
	}
	for _, v := range vars {
		os.Unsetenv(v)
	}
}

// c20SamplerOrder: WithSampler twice (and with a nil in every position: "nil" provides nothing)
// x OTEL_TRACES_SAMPLER {unset, always_off, traceidratio + 0.25}: the last non-nil sampler wins.
func c20SamplerOrder(r *enum.R) {
	a, b := NeverSample(), TraceIDRatioBased(0.5)
	type so struct {
		name string
		s    Sampler
	}
	A, B, N := so{"WithSampler(never)", a}, so{"WithSampler(ratio 0.5)", b}, so{"WithSampler(nil)", nil}
	lists := [][]so{{A, B}, {B, A}, {A, N}, {N, A}, {A, B, N}, {A, N, B}, {N, A, B}, {B, A, N}}
	envs := []map[string]string{{}, {"OTEL_TRACES_SAMPLER": "always_off"}, {"OTEL_TRACES_SAMPLER": "traceidratio", "OTEL_TRACES_SAMPLER_ARG": "0.25"}}
	r.Bound("order_sampler_lists", len(lists))
	r.Bound("order_sampler_env_states", len(envs))
	for _, env := range envs {
		for _, k := range []string{"OTEL_TRACES_SAMPLER", "OTEL_TRACES_SAMPLER_ARG"} {
			if v, ok := env[k]; ok {
				os.Setenv(k, v)
			} else {
				os.Unsetenv(k)
			}
		}
		for _, l := range lists {
			if r.Expired() {
				return
			}
			if !r.Want() {
				continue
			}
			r.Count("configuration_points", 1)
			r.Eval()
			var opts []TracerProviderOption
			var names []string
			var want Sampler
			for _, o := range l {
				opts = append(opts, WithSampler(o.s))
				names = append(names, o.name)
				if o.s != nil {
					want = o.s
				}
			}
			got, pan := "", ""
			func() {
				defer func() {
					if p := recover(); p != nil {
						pan = fmt.Sprint(p)
					}
				}()
				tp := NewTracerProvider(opts...)
				got = c20SamplerSig(tp.sampler)
				tp.Shutdown(context.Background())
			}()
			r.Outcome("sampler order " + got + pan)
			cas := map[string]any{"component": "NewTracerProvider(sampler)", "options": names, "environment": env, "effective": got, "panic": pan, "reference": c20SamplerSig(want)}
			r.Sample(func() any { return cas })
			if pan != "" {
				r.FailHere("panic|NewTracerProvider(sampler)|order", cas, "NewTracerProvider(%v) panicked: %s", names, pan)
			} else if got != c20SamplerSig(want) {
				r.FailHere("order|NewTracerProvider(sampler)|WithSampler,WithSampler", cas, "NewTracerProvider(%v) with %v: effective sampler %s, the last non-nil option asks for %s", names, env, got, c20SamplerSig(want))
			}
		}
	}
	os.Unsetenv("OTEL_TRACES_SAMPLER")
	os.Unsetenv("OTEL_TRACES_SAMPLER_ARG")
}

// c20SamplerForeign: variables that are no source of the sampler, set to sampler names / ratios,
// for the bases {nothing set, OTEL_TRACES_SAMPLER=traceidratio + ARG=0.25, always_off, WithSampler}.
func c20SamplerForeign(r *enum.R) {
	foreign := []c20sdk.KV{{"OTEL_TRACE_SAMPLER", "always_off"}, {"OTEL_SAMPLER", "always_off"}, {"OTEL_TRACES_SAMPLER_NAME", "always_off"}, {"OTEL_LOGS_SAMPLER", "always_off"},
		{"OTEL_METRICS_SAMPLER", "always_off"}, {"otel_traces_sampler", "always_off"}, {"OTEL_TRACES_SAMPLER_RATIO", "0"}, {"OTEL_TRACES_SAMPLER_ARGS", "0"},
		{"OTEL_TRACE_SAMPLER_ARG", "0"}, {"OTEL_SAMPLER_ARG", "0"}, {"OTEL_METRICS_EXEMPLAR_FILTER", "always_off"}, {"OTEL_TRACES_EXPORTER", "none"}}
	type base struct {
		name string
		env  map[string]string
		opt  Sampler
	}
	bases := []base{{"nothing set", nil, nil}, {"traceidratio 0.25", map[string]string{"OTEL_TRACES_SAMPLER": "traceidratio", "OTEL_TRACES_SAMPLER_ARG": "0.25"}, nil},
		{"parentbased_always_off", map[string]string{"OTEL_TRACES_SAMPLER": "parentbased_always_off"}, nil}, {"WithSampler(ratio 0.5)", nil, TraceIDRatioBased(0.5)}}
	var names []string
	for _, f := range foreign {
		names = append(names, f.Name+"="+f.Value)
	}
	r.Bound("foreign_variables(sampler)", names)
	run := func(b base) string {
		r.Eval()
		var opts []TracerProviderOption
		if b.opt != nil {
			opts = append(opts, WithSampler(b.opt))
		}
		got := ""
		func() {
			defer func() {
				if p := recover(); p != nil {
					got = "panic: " + fmt.Sprint(p)
				}
			}()
			tp := NewTracerProvider(opts...)
			got = c20SamplerSig(tp.sampler)
			tp.Shutdown(context.Background())
		}()
		return got
	}
	for _, b := range bases {
		for _, k := range []string{"OTEL_TRACES_SAMPLER", "OTEL_TRACES_SAMPLER_ARG"} {
			if v, ok := b.env[k]; ok {
				os.Setenv(k, v)
			} else {
				os.Unsetenv(k)
			}
		}
		got0 := run(b)
		check := func(set []c20sdk.KV, keyName string) {
			if r.Expired() || !r.Want() {
				return
			}
			r.Count("configuration_points", 1)
			env := map[string]string{}
			for _, v := range set {
				os.Setenv(v.Name, v.Value)
				env[v.Name] = v.Value
			}
			got := run(b)
			for _, v := range set {
				os.Unsetenv(v.Name)
			}
			r.Outcome("sampler foreign " + got)
			cas := map[string]any{"component": "NewTracerProvider(sampler)", "base_configuration": b.name, "foreign": env, "effective": got, "effective_without": got0}
			r.Sample(func() any { return cas })
			if got != got0 {
				r.FailHere("foreign|NewTracerProvider(sampler)|"+keyName, cas, "NewTracerProvider (%s): setting %v changes the sampler: %s, without it %s", b.name, env, got, got0)
			}
		}
		for _, f := range foreign {
			check([]c20sdk.KV{f}, f.Name)
		}
		check(foreign, "all foreign variables at once")
	}
	os.Unsetenv("OTEL_TRACES_SAMPLER")
	os.Unsetenv("OTEL_TRACES_SAMPLER_ARG")
}

// ---------------------------------------------------------------------------- test

func TestVerifC20(t *testing.T) {
	otel.SetErrorHandler(otel.ErrorHandlerFunc(func(error) {}))
	otel.SetLogger(logr.Discard())
	log.SetOutput(io.Discard)
	bspShards := c20sdk.New(nil, c20BSP(nil)).Shards(2)
	jobs := []string{"limits:none", "limits:raw", "limits:legacy", "sampler", "order", "foreign"}
	for i := range bspShards {
		jobs = append(jobs, fmt.Sprintf("bsp:%02d", i))
	}
	enum.Jobs(jobs, func(job string) {
		r := enum.Start("C20", "sdktrace")
		defer r.Finish()
		c20sdk.ClearEnv()
		r.Section(job)
		r.Bound("value_classes", "option {absent, valid, zero, negative[, huge]} x env {absent, valid, valid2, zero, negative, non-numeric, huge, empty}")
		switch {
		case job == "order":
			r.Section("order:bsp")
			c20sdk.New(r, c20BSP(r)).Order()
			r.Section("order:limits")
			c20LimitsOrder(r)
			r.Section("order:sampler")
			c20SamplerOrder(r)
		case job == "foreign":
			r.Section("foreign:bsp")
			c20sdk.New(r, c20BSP(r)).Foreign(c20ForeignBSP)
			for _, mode := range []string{"none", "raw", "legacy"} {
				r.Section("foreign:limits:" + mode)
				c20sdk.New(r, c20Limits(mode)).Foreign(c20ForeignLimits)
			}
			r.Section("foreign:sampler")
			c20SamplerForeign(r)
		case job == "sampler":
			c20Sampler(r)
		case strings.HasPrefix(job, "bsp:"):
			// quick: every point with at most 3 of the 8 sources set; thorough: the full cross product
			var i int
			fmt.Sscanf(job, "bsp:%d", &i)
			x := c20sdk.New(r, c20BSP(r))
			k := enum.Pick(r, 3, 8)
			r.Bound("bsp_max_non_simplest_sources(of 8)", k)
			r.Bound("bsp_points", x.Points(k))
			x.Enumerate(k, bspShards[i])
		case strings.HasPrefix(job, "limits:"):
			x := c20sdk.New(r, c20Limits(strings.TrimPrefix(job, "limits:")))
			// at most k sources away from their simplest alternative; k = 4 covers both
			// two-variable fields (specific + generic) with their full joint product
			k := 3
			if job == "limits:none" {
				k = enum.Pick(r, 3, 4)
			}
			r.Bound(job+"_max_non_simplest_sources", k)
			r.Bound(job+"_points", x.Points(k))
			x.Enumerate(k, nil)
		}
	})
}
