package otlpmetrichttp

// C20, exporter otlpmetrichttp: oconf.NewHTTPConfig + newClient (the two steps of New) are run
// for every configuration point of c20model; the resolved configuration is read from the
// oconf.Config, then one upload is pushed through a scripted http.RoundTripper put in place of
// the client's transport.

import (
	"context"
	"io"
	"log"
	"testing"

	"github.com/go-logr/logr"

	"go.opentelemetry.io/otel"
	"go.opentelemetry.io/otel/exporters/otlp/otlpmetric/otlpmetrichttp/internal/c20model"
	"go.opentelemetry.io/otel/exporters/otlp/otlpmetric/otlpmetrichttp/internal/oconf"
	metricpb "go.opentelemetry.io/proto/otlp/metrics/v1"
)

func c20Options(opts []c20model.Opt) []Option {
	var real []Option
	for _, o := range opts {
		switch o.Kind {
		case "endpoint":
			real = append(real, WithEndpoint(o.S))
		case "endpointURL":
			real = append(real, WithEndpointURL(o.S))
		case "urlPath":
			real = append(real, WithURLPath(o.S))
		case "insecure":
			real = append(real, WithInsecure())
		case "headers":
			real = append(real, WithHeaders(o.H))
		case "compression":
			c := NoCompression
			if o.S == "gzip" {
				c = GzipCompression
			}
			real = append(real, WithCompression(c))
		case "timeout":
			real = append(real, WithTimeout(o.D))
		default:
			panic("harness: unknown option kind " + o.Kind)
		}
	}
	return real
}

func c20Comp(gzip bool) string {
	if gzip {
		return "gzip"
	}
	return "none"
}

func c20Run(opts []c20model.Opt) (o c20model.Obs) {
	cfg := oconf.NewHTTPConfig(asHTTPOptions(c20Options(opts))...)
	c, err := newClient(cfg)
	if err != nil {
		o.Err = "newClient: " + err.Error()
		return o
	}
	o.Cfg = c20model.Resolved{Host: cfg.Metrics.Endpoint, Path: cfg.Metrics.URLPath, Headers: cfg.Metrics.Headers,
		Compression: c20Comp(cfg.Metrics.Compression == oconf.GzipCompression), Timeout: cfg.Metrics.Timeout}
	c.httpClient.Transport = &c20model.Transport{Obs: &o}
	ctx := context.Background()
	if err := c.UploadMetrics(ctx, &metricpb.ResourceMetrics{}); err != nil {
		o.Err = "UploadMetrics: " + err.Error()
	}
	c.Shutdown(ctx)
	return o
}

func TestVerifC20(t *testing.T) {
	otel.SetErrorHandler(otel.ErrorHandlerFunc(func(error) {}))
	otel.SetLogger(logr.Discard())
	log.SetOutput(io.Discard)
	c20model.Main(&c20model.Exporter{Name: "otlpmetrichttp", Signal: "METRICS", SigPath: "/v1/metrics", HTTP: true,
		DefaultHost: "localhost:4318", Run: c20Run})
}
