package otlptracehttp

// C20, exporter otlptracehttp: the real NewClient is run for every configuration point of
// c20model; the resolved configuration is read from the client (in-package), then one upload is
// pushed through a scripted http.RoundTripper put in place of the client's transport.

import (
	"context"
	"io"
	"log"
	"testing"

	"github.com/go-logr/logr"

	"go.opentelemetry.io/otel"
	"go.opentelemetry.io/otel/exporters/otlp/otlptrace/otlptracehttp/internal/c20model"
	tracepb "go.opentelemetry.io/proto/otlp/trace/v1"
)

func c20Options(opts []c20model.Opt) []Option {
	var real []Option
	for _, o := range opts {
		switch o.Kind {
		case "endpoint":
			real = append(real, WithEndpoint(o.S))
		case "endpointURL":
			real = append(real, WithEndpointURL(o.S))
		case "urlPath":
			real = append(real, WithURLPath(o.S))
		case "insecure":
			real = append(real, WithInsecure())
		case "headers":
			real = append(real, WithHeaders(o.H))
		case "compression":
			c := NoCompression
			if o.S == "gzip" {
				c = GzipCompression
			}
			real = append(real, WithCompression(c))
		case "timeout":
			real = append(real, WithTimeout(o.D))
		default:
			panic("harness: unknown option kind " + o.Kind)
		}
	}
	return real
}

func c20Comp(gzip bool) string {
	if gzip {
		return "gzip"
	}
	return "none"
}

func c20Run(opts []c20model.Opt) (o c20model.Obs) {
	c := NewClient(c20Options(opts)...).(*client)
	o.Cfg = c20model.Resolved{Host: c.cfg.Endpoint, Path: c.cfg.URLPath, Headers: c.cfg.Headers,
		Compression: c20Comp(Compression(c.cfg.Compression) == GzipCompression), Timeout: c.cfg.Timeout}
	c.client.Transport = &c20model.Transport{Obs: &o}
	ctx := context.Background()
	if err := c.Start(ctx); err != nil {
		o.Err = "Start: " + err.Error()
		return o
	}
	if err := c.UploadTraces(ctx, []*tracepb.ResourceSpans{}); err != nil {
		o.Err = "UploadTraces: " + err.Error()
	}
	c.Stop(ctx)
	return o
}

func TestVerifC20(t *testing.T) {
	otel.SetErrorHandler(otel.ErrorHandlerFunc(func(error) {}))
	otel.SetLogger(logr.Discard())
	log.SetOutput(io.Discard)
	c20model.Main(&c20model.Exporter{Name: "otlptracehttp", Signal: "TRACES", SigPath: "/v1/traces", HTTP: true,
		DefaultHost: "localhost:4318", Run: c20Run})
}
