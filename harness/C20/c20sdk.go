// Package c20sdk is the SDK half of check C20: a small generic model of "numeric setting with
// several sources" (option > environment [> generic environment] > default), the enumeration
// over the cross product of value classes, the minimiser that turns a failing configuration
// into a narrow finding key, shared by the sdk/trace and sdk/log harnesses. The driver copies
// this file into <module>/internal/c20sdk of the scratch tree.
//
// The meaning of every alternative is declared by hand next to its literal (Provides / Value /
// Unspec): the model never parses a number.
//
//	accept(source i):  absent or empty         -> accept(i+1)
//	                   valid (Provides)        -> { value }
//	                   unspecified (Unspec)    -> { literal } + accept(i+1)
//	                   invalid / out of range  -> accept(i+1) + { default }    ("ignored in favour of defaults")
//	accept(past the last source) = { default }
package c20sdk

import (
	"fmt"
	"os"
	"sort"
	"strings"

	"verif/mc/enum"
)

// Alt is one alternative of one source of one setting.
type Alt struct {
	Class    string // value class used in finding keys ("absent", "valid", "zero", "negative", "non-numeric", "huge", "empty")
	Present  bool   // false: the source is not used at all (option not passed / variable unset)
	Env      string // environment sources: the literal (Present && Env == "" is "set but empty")
	N        int64  // option sources: the number handed to the option (durations in ns)
	Provides bool   // the source provides Value
	Unspec   bool   // the literal is neither documented nor clearly out of range: literal or fall-through are both accepted
	Value    int64  // declared meaning (durations in ns)
}

// Source is one configuration source of a setting; Alts[0] is the simplest alternative.
type Source struct {
	Kind string // "option", "env", "generic-env"
	Env  string // variable name for environment sources
	Alts []Alt
}

// Setting is one numeric setting of a component.
type Setting struct {
	Name    string
	Default int64
	Sources []Source // highest precedence first
}

// Choice is the alternative picked for every source of every setting: [setting][source].
type Choice [][]int

// Result is what the harness observed for one configuration point.
type Result struct {
	Panic  string  // recovered panic of the constructor ("" when none)
	Values []int64 // effective value per setting
	Note   string  // appended to the outcome
}

// Component is one constructor under test.
type Component struct {
	Name     string // used in finding keys: "NewBatchSpanProcessor"
	Settings []Setting
	// Run applies nothing to the environment (the driver did), builds the options from the
	// picked alternatives, calls the real constructor under recover and reads the effective values.
	Run func(ch Choice, alt func(si, src int) *Alt) Result
	// Relax may widen the accept sets for documented cross-setting constraints. declared[si] is
	// every value any present source of setting si declares, plus the default.
	Relax func(accept, declared [][]int64) [][]int64
	// RunSteps (jobs "order") hands the constructor an ordered list of option calls, one call per
	// step, in exactly this order, and reads the effective values like Run does.
	RunSteps func(steps []Step) Result
}

// Step is one option call: the option of setting Setting called with N.
type Step struct {
	Setting int   `json:"setting"`
	N       int64 `json:"n"`
}

// StepsOf turns the option picks of a configuration point into a list of option calls in setting order
// (what Run of a component with RunSteps does).
func StepsOf(settings int, alt func(si, src int) *Alt) []Step {
	var steps []Step
	for si := 0; si < settings; si++ {
		if a := alt(si, 0); a.Present {
			steps = append(steps, Step{si, a.N})
		}
	}
	return steps
}

type dim struct{ si, src int }

type X struct {
	R    *enum.R
	C    *Component
	dims []dim
	// known minimal failing configurations per mismatch (setting name or "panic"): a later
	// point that contains one of them and fails the same way is folded into its key without
	// being minimised again (the enumeration is simplest-first, so minimal ones come early)
	known map[string][]knownMin
}

type knownMin struct {
	ch  Choice
	key string
}

// contains reports whether ch has every non-simplest alternative of min.
func contains(ch, min Choice) bool {
	for si := range min {
		for src, a := range min[si] {
			if a != 0 && ch[si][src] != a {
				return false
			}
		}
	}
	return true
}

func New(r *enum.R, c *Component) *X {
	x := &X{R: r, C: c}
	for si, s := range c.Settings {
		for src := range s.Sources {
			x.dims = append(x.dims, dim{si, src})
		}
	}
	return x
}

func (x *X) alt(ch Choice, si, src int) *Alt { return &x.C.Settings[si].Sources[src].Alts[ch[si][src]] }

func (x *X) zero() Choice {
	ch := make(Choice, len(x.C.Settings))
	for si, s := range x.C.Settings {
		ch[si] = make([]int, len(s.Sources))
	}
	return ch
}

func clone(ch Choice) Choice {
	n := make(Choice, len(ch))
	for i := range ch {
		n[i] = append([]int{}, ch[i]...)
	}
	return n
}

func union(a []int64, b ...int64) []int64 {
	for _, v := range b {
		found := false
		for _, w := range a {
			found = found || v == w
		}
		if !found {
			a = append(a, v)
		}
	}
	return a
}

// Accept is the reference: the set of effective values the property allows.
func (x *X) Accept(ch Choice) [][]int64 {
	out := make([][]int64, len(x.C.Settings))
	for si, s := range x.C.Settings {
		var rec func(i int) []int64
		rec = func(i int) []int64 {
			if i == len(s.Sources) {
				return []int64{s.Default}
			}
			a := x.alt(ch, si, i)
			switch {
			case !a.Present || (s.Sources[i].Kind != "option" && a.Env == ""):
				return rec(i + 1)
			case a.Provides && !a.Unspec:
				return []int64{a.Value}
			case a.Provides:
				return union([]int64{a.Value}, rec(i+1)...)
			default:
				return union(rec(i+1), s.Default)
			}
		}
		out[si] = rec(0)
	}
	if x.C.Relax != nil {
		decl := make([][]int64, len(x.C.Settings))
		for si, s := range x.C.Settings {
			decl[si] = []int64{s.Default}
			for src := range s.Sources {
				if a := x.alt(ch, si, src); a.Present && a.Provides {
					decl[si] = union(decl[si], a.Value)
				}
			}
		}
		out = x.C.Relax(out, decl)
	}
	return out
}

type mismatch struct {
	what string // "panic" or the setting name
	msg  string
}

// Eval puts the choice into the environment, runs the real constructor and judges it.
func (x *X) Eval(ch Choice) (Result, []mismatch) {
	for si, s := range x.C.Settings {
		for src, so := range s.Sources {
			if so.Kind == "option" {
				continue
			}
			if a := x.alt(ch, si, src); a.Present {
				os.Setenv(so.Env, a.Env)
			} else {
				os.Unsetenv(so.Env)
			}
		}
	}
	x.R.Eval()
	res := x.C.Run(ch, func(si, src int) *Alt { return x.alt(ch, si, src) })
	if res.Panic != "" {
		return res, []mismatch{{"panic", "constructor panicked: " + res.Panic}}
	}
	acc := x.Accept(ch)
	var mm []mismatch
	for si, s := range x.C.Settings {
		ok := false
		for _, v := range acc[si] {
			ok = ok || v == res.Values[si]
		}
		if !ok {
			mm = append(mm, mismatch{s.Name, fmt.Sprintf("effective %s = %d, reference allows %v", s.Name, res.Values[si], acc[si])})
		}
	}
	return res, mm
}

func find(mm []mismatch, what string) *mismatch {
	for i := range mm {
		if mm[i].what == what {
			return &mm[i]
		}
	}
	return nil
}

func (x *X) minimise(ch Choice, what string) Choice {
	cur := clone(ch)
	for changed := true; changed; {
		changed = false
		for _, d := range x.dims {
			if cur[d.si][d.src] == 0 {
				continue
			}
			old := cur[d.si][d.src]
			cur[d.si][d.src] = 0
			if _, mm := x.Eval(cur); find(mm, what) != nil {
				changed = true
				continue
			}
			cur[d.si][d.src] = old
		}
	}
	return cur
}

// Describe lists the sources that are not at their simplest alternative.
func (x *X) Describe(ch Choice, own string) (string, map[string]any) {
	var parts []string
	full := map[string]any{}
	for si, s := range x.C.Settings {
		for src, so := range s.Sources {
			if ch[si][src] == 0 {
				continue
			}
			a := x.alt(ch, si, src)
			p := ""
			if s.Name != own {
				p = s.Name + "."
			}
			parts = append(parts, p+so.Kind+"="+a.Class)
			if so.Kind == "option" {
				full["option "+s.Name] = a.N
			} else {
				full[so.Env] = a.Env
			}
		}
	}
	if len(parts) == 0 {
		parts = []string{"all sources at their simplest alternative"}
	}
	return strings.Join(parts, " "), full
}

func (x *X) one(ch Choice) {
	res, mm := x.Eval(ch)
	x.R.Outcome(fmt.Sprint(x.C.Name, res.Panic != "", res.Values, res.Note))
	x.R.Sample(func() any {
		_, full := x.Describe(ch, "")
		return map[string]any{"component": x.C.Name, "configuration": full, "effective": res.Values, "panic": res.Panic}
	})
	for _, m := range mm {
		here := x.R.Here()
		folded := false
		for _, km := range x.known[m.what] {
			if contains(ch, km.ch) {
				x.R.Fail(km.key, nil, here, "")
				folded = true
				break
			}
		}
		if folded {
			continue
		}
		min := x.minimise(ch, m.what)
		mres, mmm := x.Eval(min)
		key, full := x.Describe(min, m.what)
		_, ofull := x.Describe(ch, m.what)
		msg := m.msg
		if m2 := find(mmm, m.what); m2 != nil {
			msg = m2.msg
		}
		k := "effective|" + x.C.Name + "|" + m.what + "|" + key
		if m.what == "panic" {
			k = "panic|" + x.C.Name + "|" + key
		}
		if x.known == nil {
			x.known = map[string][]knownMin{}
		}
		x.known[m.what] = append(x.known[m.what], knownMin{min, k})
		x.R.Fail(k, map[string]any{"component": x.C.Name, "minimal_configuration": full, "effective": mres.Values, "panic": mres.Panic,
			"reference_allows": x.Accept(min), "first_seen_in": ofull}, here, "%s with %s: %s", x.C.Name, key, msg)
	}
}

// Enumerate visits every configuration point in which at most k sources are not at their
// simplest alternative, fewest first; k >= number of sources is the full cross product.
// fix pins the first len(fix) sources to the given alternatives (the jobs of one component
// partition the space that way); pinned non-simplest sources count towards k.
func (x *X) Enumerate(k int, fix []int) {
	dims := x.dims
	ch := x.zero()
	budget := k
	for i, a := range fix {
		d := dims[i]
		if a >= len(x.C.Settings[d.si].Sources[d.src].Alts) {
			return
		}
		ch[d.si][d.src] = a
		if a > 0 {
			budget--
		}
	}
	dims = dims[len(fix):]
	if budget > len(dims) {
		budget = len(dims)
	}
	for size := 0; size <= budget; size++ {
		// all subsets of dims of this size, lexicographic
		idx := make([]int, size)
		for i := range idx {
			idx[i] = i
		}
		for {
			x.assign(ch, dims, idx, 0)
			if x.R.Expired() {
				return
			}
			// next subset
			i := size - 1
			for i >= 0 && idx[i] == len(dims)-size+i {
				i--
			}
			if i < 0 {
				break
			}
			idx[i]++
			for j := i + 1; j < size; j++ {
				idx[j] = idx[j-1] + 1
			}
		}
	}
}

// Shards lists the pinned prefixes that partition the space over the first n sources.
func (x *X) Shards(n int) [][]int {
	out := [][]int{{}}
	for i := 0; i < n; i++ {
		d := x.dims[i]
		var next [][]int
		for _, p := range out {
			for a := range x.C.Settings[d.si].Sources[d.src].Alts {
				next = append(next, append(append([]int{}, p...), a))
			}
		}
		out = next
	}
	return out
}

// assign gives every source of the subset each of its non-simplest alternatives.
func (x *X) assign(ch Choice, dims []dim, idx []int, pos int) {
	if pos == len(idx) {
		if x.R.Expired() || !x.R.Want() {
			return
		}
		x.R.Count("configuration_points", 1)
		x.one(clone(ch))
		return
	}
	d := dims[idx[pos]]
	n := len(x.C.Settings[d.si].Sources[d.src].Alts)
	for a := 1; a < n; a++ {
		ch[d.si][d.src] = a
		x.assign(ch, dims, idx, pos+1)
	}
	ch[d.si][d.src] = 0
}

// Points is the number of configuration points Enumerate(k, -1) visits.
func (x *X) Points(k int) int64 {
	// elementary symmetric polynomials of (alts-1) per source
	e := make([]int64, len(x.dims)+1)
	e[0] = 1
	for _, d := range x.dims {
		m := int64(len(x.C.Settings[d.si].Sources[d.src].Alts) - 1)
		for j := len(x.dims); j >= 1; j-- {
			e[j] += e[j-1] * m
		}
	}
	var n int64
	for j := 0; j <= k && j < len(e); j++ {
		n += e[j]
	}
	return n
}

// ClearEnv removes every OTEL_* variable: nothing but the case decides the configuration.
func ClearEnv() {
	for _, kv := range os.Environ() {
		if k, _, _ := strings.Cut(kv, "="); strings.HasPrefix(k, "OTEL_") {
			os.Unsetenv(k)
		}
	}
}

// ---------------------------------------------------------------------------- jobs "order" and "foreign"

// setEnv puts every environment source of the component at alternative a (0 = unset, 1 = the first valid value).
func (x *X) setEnv(a int) {
	for _, s := range x.C.Settings {
		for _, so := range s.Sources {
			if so.Kind == "option" {
				continue
			}
			if alt := so.Alts[a]; alt.Present {
				os.Setenv(so.Env, alt.Env)
			} else {
				os.Unsetenv(so.Env)
			}
		}
	}
}

// Order checks "a later option overrides an earlier one, any option overrides the environment" on
// ordered option lists (Component.RunSteps): for every setting si that has an option, both orders of two
// valid values A, B, alone and with one option M of every other setting before, between and after
// them, with all variables unset and with every variable set to a valid value:
//
//	(1) the effective value of si is the LAST one handed over;
//	(2) the whole effective value vector equals the one of the same list without the overridden call.
//
// (2) is what keeps (1) from depending on anything the other jobs judge (defaults, clamping).
func (x *X) Order() {
	c := x.C
	type variant struct {
		name      string
		full, ref []Step
	}
	x.R.Bound("order_env_states", []string{"all variables unset", "every variable at its first valid value"})
	x.R.Bound("order_lists", "per setting: [A,B] [B,A] and with one option M of each other setting as [M,A,B] [A,M,B] [A,B,M]; A = the valid option value, B = A+1")
	for envState := 0; envState <= 1; envState++ {
		for si, s := range c.Settings {
			if s.Sources[0].Kind != "option" {
				continue
			}
			v := s.Sources[0].Alts[1].N
			for _, ab := range [][2]int64{{v, v + 1}, {v + 1, v}} {
				A, B := Step{si, ab[0]}, Step{si, ab[1]}
				vs := []variant{{"[A,B]", []Step{A, B}, []Step{B}}}
				for mi, ms := range c.Settings {
					if mi == si || ms.Sources[0].Kind != "option" {
						continue
					}
					M := Step{mi, ms.Sources[0].Alts[1].N}
					vs = append(vs,
						variant{"[M,A,B]", []Step{M, A, B}, []Step{M, B}},
						variant{"[A,M,B]", []Step{A, M, B}, []Step{M, B}},
						variant{"[A,B,M]", []Step{A, B, M}, []Step{B, M}})
				}
				for _, vr := range vs {
					if x.R.Expired() {
						return
					}
					if !x.R.Want() {
						continue
					}
					x.R.Count("configuration_points", 1)
					x.setEnv(envState)
					x.R.Evals(2)
					full := c.RunSteps(vr.full)
					ref := c.RunSteps(vr.ref)
					x.R.Outcome(fmt.Sprint(c.Name, full.Panic != "", full.Values, full.Note))
					cas := map[string]any{"component": c.Name, "setting": s.Name, "variables": []string{"unset", "valid"}[envState], "option_calls": vr.full,
						"effective": full.Values, "panic": full.Panic, "option_calls_without_the_overridden": vr.ref, "effective_without": ref.Values}
					x.R.Sample(func() any { return cas })
					switch {
					case full.Panic != "":
						x.R.FailHere("panic|"+c.Name+"|order "+s.Name, cas, "%s with the option of %s called twice (%s, %v) panicked: %s", c.Name, s.Name, vr.name, vr.full, full.Panic)
					case full.Values[si] != B.N:
						x.R.FailHere("order|"+c.Name+"|"+s.Name, cas, "%s with option calls %s %v: effective %s = %d, the last call asks for %d", c.Name, vr.name, vr.full, s.Name, full.Values[si], B.N)
					case ref.Panic == "" && fmt.Sprint(full.Values, full.Note) != fmt.Sprint(ref.Values, ref.Note):
						x.R.FailHere("order|"+c.Name+"|"+s.Name, cas, "%s with option calls %s %v: effective values %v %s, without the overridden call %v %s", c.Name, vr.name, vr.full, full.Values, full.Note, ref.Values, ref.Note)
					}
				}
			}
		}
	}
	x.setEnv(0)
}

// KV is one foreign environment variable with a value that would be visible if it were read.
type KV struct{ Name, Value string }

// Foreign checks that variables which are not a source of this component do not influence it: for
// four base configurations (nothing set / every variable valid / every option valid / both) every
// foreign variable alone, then all at once, is set: the effective values must be the ones of the
// base configuration.
func (x *X) Foreign(vars []KV) {
	var names []string
	for _, v := range vars {
		names = append(names, v.Name+"="+v.Value)
	}
	x.R.Bound("foreign_variables("+x.C.Name+")", names)
	x.R.Bound("foreign_base_configurations", []string{"nothing set", "every variable valid", "every option valid", "both"})
	for b := 0; b < 4; b++ {
		ch := x.zero()
		for si, s := range x.C.Settings {
			for src, so := range s.Sources {
				if (so.Kind == "option" && b&2 != 0) || (so.Kind != "option" && b&1 != 0) {
					ch[si][src] = 1
				}
			}
		}
		res0, _ := x.Eval(ch)
		_, bfull := x.Describe(ch, "")
		check := func(set []KV, keyName string) {
			if x.R.Expired() || !x.R.Want() {
				return
			}
			x.R.Count("configuration_points", 1)
			env := map[string]string{}
			for _, v := range set {
				os.Setenv(v.Name, v.Value)
				env[v.Name] = v.Value
			}
			res, _ := x.Eval(ch)
			for _, v := range set {
				os.Unsetenv(v.Name)
			}
			x.R.Outcome(fmt.Sprint(x.C.Name, res.Panic != "", res.Values, res.Note))
			cas := map[string]any{"component": x.C.Name, "base_configuration": bfull, "foreign": env, "effective": res.Values, "panic": res.Panic, "effective_without": res0.Values}
			x.R.Sample(func() any { return cas })
			if fmt.Sprint(res) != fmt.Sprint(res0) {
				x.R.FailHere("foreign|"+x.C.Name+"|"+keyName, cas, "%s: setting %v changes the component: effective %v %s%s, without it %v %s%s", x.C.Name, env,
					res.Values, res.Note, res.Panic, res0.Values, res0.Note, res0.Panic)
			}
		}
		for _, v := range vars {
			check([]KV{v}, v.Name)
		}
		check(vars, "all foreign variables at once")
	}
}

// ---------------------------------------------------------------------------- alphabets

const HugeLiteral = "99999999999999999999" // does not fit an int64

// EnvAlts is the environment alphabet {absent, valid, valid2, zero, negative, non-numeric, huge, empty}.
// scale converts the integer literal to the unit of the effective value (1e6 for millisecond
// variables observed in ns). zero / negative say how the property reads these classes for
// this setting: "literal" (documented meaning), "invalid" (out of range: ignored) or "unspec".
func EnvAlts(v1, v2 int64, scale int64, zero, negative string) []Alt {
	mk := func(class, lit string, n int64, how string) Alt {
		a := Alt{Class: class, Present: true, Env: lit}
		switch how {
		case "literal":
			a.Provides, a.Value = true, n*scale
		case "unspec":
			a.Provides, a.Unspec, a.Value = true, true, n*scale
		case "invalid":
		default:
			panic("c20sdk: how=" + how)
		}
		return a
	}
	return []Alt{
		{Class: "absent"},
		mk("valid", fmt.Sprint(v1), v1, "literal"),
		mk("valid", fmt.Sprint(v2), v2, "literal"),
		mk("zero", "0", 0, zero),
		mk("negative", "-3", -3, negative),
		mk("non-numeric", "abc", 0, "invalid"),
		mk("huge", HugeLiteral, 0, "invalid"),
		{Class: "empty", Present: true, Env: ""},
		// numeric TEXT: the variables hold decimal integers. A zero-padded decimal keeps its decimal
		// meaning or is ignored (never read in another base); spellings that only a base-0 / Go-literal
		// parser accepts are unparsable
		mk("zero-padded decimal", "00"+fmt.Sprint(v1), v1, "unspec"),
		mk("hex literal", "0x1F", 0, "invalid"),
		mk("digit separators", "1_0", 0, "invalid"),
	}
}

// OptAlts is the option alphabet {absent, valid, zero, negative [, huge]}; values are in the
// unit of the effective value.
func OptAlts(v int64, zero, negative string, huge int64) []Alt {
	mk := func(class string, n int64, how string) Alt {
		a := Alt{Class: class, Present: true, N: n}
		switch how {
		case "literal":
			a.Provides, a.Value = true, n
		case "unspec":
			a.Provides, a.Unspec, a.Value = true, true, n
		case "invalid":
		default:
			panic("c20sdk: how=" + how)
		}
		return a
	}
	as := []Alt{{Class: "absent"}, mk("valid", v, "literal"), mk("zero", 0, zero), mk("negative", -3, negative)}
	if huge != 0 {
		as = append(as, mk("huge", huge, "literal"))
	}
	return as
}

// SortedKeys is a helper for deterministic iteration.
func SortedKeys[M ~map[string]V, V any](m M) []string {
	ks := make([]string, 0, len(m))
	for k := range m {
		ks = append(ks, k)
	}
	sort.Strings(ks)
	return ks
}
