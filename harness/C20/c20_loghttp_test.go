package otlploghttp

// C20, exporter otlploghttp: newConfig + newHTTPClient (the two steps of New) are run for every
// configuration point of c20model; the resolved configuration is read from the config, then one
// upload is pushed through the constructed client. The client keeps its http.Client in a
// closure, so the scripted seam is the transport's Proxy hook (WithProxy): it is called by
// net/http with the outgoing request before any connection is made, records it and aborts the
// round trip. No socket is opened.

import (
	"context"
	"errors"
	"io"
	"log"
	"net/http"
	"net/url"
	"testing"

	"github.com/go-logr/logr"

	"go.opentelemetry.io/otel"
	"go.opentelemetry.io/otel/exporters/otlp/otlplog/otlploghttp/internal/c20model"
	logpb "go.opentelemetry.io/proto/otlp/logs/v1"
)

func c20Options(opts []c20model.Opt) []Option {
	var real []Option
	for _, o := range opts {
		switch o.Kind {
		case "endpoint":
			real = append(real, WithEndpoint(o.S))
		case "endpointURL":
			real = append(real, WithEndpointURL(o.S))
		case "urlPath":
			real = append(real, WithURLPath(o.S))
		case "insecure":
			real = append(real, WithInsecure())
		case "headers":
			real = append(real, WithHeaders(o.H))
		case "compression":
			c := NoCompression
			if o.S == "gzip" {
				c = GzipCompression
			}
			real = append(real, WithCompression(c))
		case "timeout":
			real = append(real, WithTimeout(o.D))
		default:
			panic("harness: unknown option kind " + o.Kind)
		}
	}
	return real
}

func c20Comp(gzip bool) string {
	if gzip {
		return "gzip"
	}
	return "none"
}

var errC20Seen = errors.New("c20: request recorded")

func c20Run(opts []c20model.Opt) (o c20model.Obs) {
	tr := &c20model.Transport{Obs: &o}
	real := append(c20Options(opts), WithProxy(func(req *http.Request) (*url.URL, error) {
		tr.See(req)
		return nil, errC20Seen
	}))
	cfg := newConfig(real)
	c, err := newHTTPClient(cfg)
	if err != nil {
		o.Err = "newHTTPClient: " + err.Error()
		return o
	}
	o.Cfg = c20model.Resolved{Host: cfg.endpoint.Value, Path: cfg.path.Value, Headers: cfg.headers.Value,
		Compression: c20Comp(cfg.compression.Value == GzipCompression), Timeout: cfg.timeout.Value}
	if err := c.UploadLogs(context.Background(), []*logpb.ResourceLogs{}); err != nil && !errors.Is(err, errC20Seen) {
		o.Err = "UploadLogs: " + err.Error()
	}
	return o
}

func TestVerifC20(t *testing.T) {
	otel.SetErrorHandler(otel.ErrorHandlerFunc(func(error) {}))
	otel.SetLogger(logr.Discard())
	log.SetOutput(io.Discard)
	c20model.Main(&c20model.Exporter{Name: "otlploghttp", Signal: "LOGS", SigPath: "/v1/logs", HTTP: true,
		DefaultHost: "localhost:4318", Run: c20Run})
}
