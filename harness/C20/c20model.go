// Package c20model is the exporter half of check C20: the value alphabets, the reference
// precedence function and the enumeration driver shared by the six OTLP exporter harnesses.
// The driver copies this file into <exporter module>/internal/c20model of the scratch tree;
// every exporter harness (an in-package test of the exporter) supplies one Exporter value whose
// Run function turns abstract options into the exporter's real options, runs the real
// constructor and reports (a) the in-package resolved configuration and (b) what a scripted
// transport saw when one export was pushed through the constructed client.
//
// Reference semantics (the property statement, nothing more):
//
//	each setting is taken from the highest-precedence source that provides it:
//	option > signal-specific variable > generic variable > default;
//	an absent, empty or invalid value provides nothing;
//	generic endpoint: host of the URL, path = URL path joined with the signal path by exactly one "/";
//	signal-specific endpoint: host of the URL, path = URL path verbatim, "/" when it is empty.
//
// The meaning of every literal of the alphabet (which host, which path, which header map, which
// duration it denotes) is written down by hand next to the literal: the model never parses a
// URL, a header list or a number.
package c20model

import (
	"bytes"
	"fmt"
	"io"
	"net/http"
	"os"
	"sort"
	"strings"
	"time"

	"verif/mc/enum"
)

// Opt is an abstract programmatic option. Kind is one of "endpoint" (WithEndpoint), "endpointURL"
// (WithEndpointURL), "urlPath" (WithURLPath), "headers" (WithHeaders), "compression"
// (WithCompression / WithCompressor; S is "gzip", "none" or an unsupported name) and "timeout"
// (WithTimeout); "insecure" is WithInsecure (jobs "order" only).
type Opt struct {
	Kind string            `json:"kind"`
	S    string            `json:"s,omitempty"`
	D    time.Duration     `json:"d,omitempty"`
	H    map[string]string `json:"h,omitempty"`
}

// Resolved is one observation of the five settings.
type Resolved struct {
	Host        string            `json:"host"`
	Path        string            `json:"path"`
	Headers     map[string]string `json:"headers"`
	Compression string            `json:"compression"` // "gzip" or "none"
	Timeout     time.Duration     `json:"timeout"`
	AltPath     string            `json:"alt_path,omitempty"` // a second admitted path (an option URL without a path: the signal default, or "/")
	Scheme      string            `json:"scheme,omitempty"`   // reference only, job "order", HTTP exporters: the scheme an OPTION asks for ("" = not judged)
}

// Obs is what an exporter harness reports for one configuration point.
type Obs struct {
	Panic string   // recovered panic value of the constructor / export ("" when none)
	Err   string   // constructor error ("" when none)
	Cfg   Resolved // in-package resolved configuration

	HasWire    bool          // the scripted transport was reached
	Wire       Resolved      // what it saw (Timeout = time left until the request deadline)
	NoDeadline bool          // the request carried no deadline
	Elapsed    time.Duration // real time from the start of Run until the seam saw the request (bounds how stale the deadline can be)
	Scheme     string        // not judged, part of the outcome only
	BodyGzip   bool          // HTTP: the body starts with the gzip magic
	WireCalls  int
}

// Exporter describes one exporter under test.
type Exporter struct {
	Name        string // "otlptracehttp"
	Signal      string // "TRACES", "METRICS", "LOGS"
	SigPath     string // "/v1/traces"
	HTTP        bool
	DefaultHost string
	Run         func(opts []Opt) Obs
}

// ---------------------------------------------------------------------------- alphabets

// Alt is one alternative of one source (option list / specific variable / generic variable) of
// one setting group, together with its declared meaning.
type Alt struct {
	Class  string // value class used in finding keys
	Coarse int    // 0 absent, 1 valid, 2 invalid; -1 = not part of the reduced {absent, valid, invalid} alphabet
	Set    bool   // environment sources: the variable is set
	Env    string
	Opts   []Opt
	Reduce []int // simpler alternatives (indexes into the same list) tried when a failing case is minimised

	HasHost, HasPath, HasHeaders, HasComp, HasTimeout bool
	Host, Path                                        string // env URLs: Path is the URL's raw path component
	Headers                                           map[string]string
	Comp                                              string
	Timeout                                           time.Duration
	// option alternatives of job "order" only: the scheme the option list asks for (WithInsecure:
	// "http"; WithEndpointURL: the URL's scheme; the last of them wins)
	HasScheme bool
	Scheme    string
}

// Group is one setting group: the sources that can provide it.
type Group struct {
	Name      string   // "endpoint", "headers", "compression", "timeout"
	Settings  []string // settings judged for this group
	EnvSuffix string
	Opt       []Alt
	Spec      []Alt
	Gen       []Alt
}

var absent = Alt{Class: "absent", Coarse: 0}

func envURL(class string, coarse int, lit, host, path string) Alt {
	a := Alt{Class: class, Coarse: coarse, Set: true, Env: lit, HasHost: true, HasPath: true, Host: host, Path: path}
	if class != "valid" {
		a.Reduce = []int{1} // the plain host-only URL is the simpler valid value
	}
	return a
}

func envBad(class string, coarse int, lit string) Alt {
	return Alt{Class: class, Coarse: coarse, Set: true, Env: lit}
}

// invalid URL literals: neither is a URL by RFC 3986 (unterminated IP literal, bad percent escape)
const (
	badURL1 = "http://[::1"
	badURL2 = "http://%zz.example:4318/x"
)

func endpointGroup(e *Exporter, thorough bool) *Group {
	g := &Group{Name: "endpoint", EnvSuffix: "ENDPOINT", Settings: []string{"endpoint"}}
	port := "4317"
	if e.HTTP {
		port = "4318"
		g.Settings = []string{"endpoint", "path"}
	}
	h := func(n string) string { return n + ".example:" + port }
	// options
	g.Opt = []Alt{absent,
		{Class: "WithEndpoint", Coarse: -1, Opts: []Opt{{Kind: "endpoint", S: h("o1")}}, HasHost: true, Host: h("o1")},
	}
	if e.HTTP {
		g.Opt = append(g.Opt,
			Alt{Class: "WithURLPath", Coarse: -1, Opts: []Opt{{Kind: "urlPath", S: "/opt/path"}}, HasPath: true, Path: "/opt/path"},
			Alt{Class: "WithEndpoint+WithURLPath", Coarse: -1, Opts: []Opt{{Kind: "endpoint", S: h("o1")}, {Kind: "urlPath", S: "/opt/path"}},
				HasHost: true, Host: h("o1"), HasPath: true, Path: "/opt/path", Reduce: []int{1, 2}},
			Alt{Class: "WithEndpointURL", Coarse: 1, Opts: []Opt{{Kind: "endpointURL", S: "http://" + h("o2") + "/ou/path"}},
				HasHost: true, Host: h("o2"), HasPath: true, Path: "/ou/path"},
			Alt{Class: "WithEndpointURL(https)", Coarse: -1, Opts: []Opt{{Kind: "endpointURL", S: "https://" + h("o3") + "/ou3"}},
				HasHost: true, Host: h("o3"), HasPath: true, Path: "/ou3"},
			Alt{Class: "WithEndpointURL(invalid)", Coarse: 2, Opts: []Opt{{Kind: "endpointURL", S: badURL1}}},
			// "If both this option and WithEndpointURL are used, the last used option will take precedence."
			Alt{Class: "WithEndpointURL,WithEndpoint", Coarse: -1, Opts: []Opt{{Kind: "endpointURL", S: "http://" + h("o2") + "/ou/path"}, {Kind: "endpoint", S: h("o1")}},
				HasHost: true, Host: h("o1"), HasPath: true, Path: "/ou/path", Reduce: []int{1, 4}},
			Alt{Class: "WithEndpoint,WithEndpointURL", Coarse: -1, Opts: []Opt{{Kind: "endpoint", S: h("o1")}, {Kind: "endpointURL", S: "http://" + h("o2") + "/ou/path"}},
				HasHost: true, Host: h("o2"), HasPath: true, Path: "/ou/path", Reduce: []int{1, 4}},
			Alt{Class: "WithEndpointURL(no path)", Coarse: -1, Opts: []Opt{{Kind: "endpointURL", S: "http://" + h("o4")}},
				HasHost: true, Host: h("o4"), HasPath: true, Path: "", Reduce: []int{4}},
		)
	} else {
		g.Opt = append(g.Opt,
			Alt{Class: "WithEndpointURL", Coarse: 1, Opts: []Opt{{Kind: "endpointURL", S: "http://" + h("o2")}}, HasHost: true, Host: h("o2")},
			Alt{Class: "WithEndpointURL(https)", Coarse: -1, Opts: []Opt{{Kind: "endpointURL", S: "https://" + h("o3")}}, HasHost: true, Host: h("o3")},
			Alt{Class: "WithEndpointURL(invalid)", Coarse: 2, Opts: []Opt{{Kind: "endpointURL", S: badURL1}}},
			Alt{Class: "WithEndpointURL,WithEndpoint", Coarse: -1, Opts: []Opt{{Kind: "endpointURL", S: "http://" + h("o2")}, {Kind: "endpoint", S: h("o1")}},
				HasHost: true, Host: h("o1"), Reduce: []int{1, 2}},
			Alt{Class: "WithEndpoint,WithEndpointURL", Coarse: -1, Opts: []Opt{{Kind: "endpoint", S: h("o1")}, {Kind: "endpointURL", S: "http://" + h("o2")}},
				HasHost: true, Host: h("o2"), Reduce: []int{1, 2}},
		)
	}
	mk := func(p string) []Alt {
		as := []Alt{absent,
			envURL("valid", 1, "http://"+h(p+"1"), h(p+"1"), ""),
			envURL("valid(trailing slash)", -1, "http://"+h(p+"1")+"/", h(p+"1"), "/"),
		}
		if e.HTTP {
			as = append(as,
				envURL("valid(path)", -1, "http://"+h(p+"2")+"/"+p+"/path", h(p+"2"), "/"+p+"/path"),
				envURL("valid(trailing slash)", -1, "http://"+h(p+"2")+"/"+p+"/path/", h(p+"2"), "/"+p+"/path/"),
				envURL("valid(https, path)", -1, "https://"+h(p+"3")+"/"+p+"3", h(p+"3"), "/"+p+"3"),
				// a base URL whose own path already ends in the signal path (somebody pasted the full
				// URL of another collector): as a generic value it is still a base -- the signal path
				// is appended --, as a signal-specific value it is used as it is
				envURL("valid(path ends in the signal path)", -1, "http://"+h(p+"4")+"/"+p+e.SigPath, h(p+"4"), "/"+p+e.SigPath),
				envURL("valid(path is the signal path)", -1, "http://"+h(p+"5")+e.SigPath, h(p+"5"), e.SigPath),
			)
		} else {
			as = append(as, envURL("valid(https)", -1, "https://"+h(p+"3"), h(p+"3"), ""))
		}
		as = append(as, envBad("invalid", 2, badURL1), envBad("empty", -1, ""))
		if thorough {
			as = append(as, envBad("invalid", -1, badURL2))
		}
		// the SAME literal under the signal-specific and the generic variable (job "history"):
		// whatever an exporter remembers about a string must not depend on which variable held it
		if e.HTTP {
			as = append(as, envURL("valid(trailing slash)", -1, "http://"+h("x1")+"/base/", h("x1"), "/base/"),
				envURL("valid(path)", -1, "http://"+h("x2")+"/v", h("x2"), "/v"))
		} else {
			as = append(as, envURL("valid(trailing slash)", -1, "http://"+h("x1")+"/", h("x1"), "/"),
				envURL("valid", -1, "http://"+h("x2"), h("x2"), ""))
		}
		return as
	}
	g.Spec, g.Gen = mk("s"), mk("g")
	return g
}

func headersGroup(thorough bool) *Group {
	g := &Group{Name: "headers", EnvSuffix: "HEADERS", Settings: []string{"headers"}}
	oh := func(class string, coarse int, m map[string]string) Alt {
		return Alt{Class: class, Coarse: coarse, Opts: []Opt{{Kind: "headers", H: m}}, HasHeaders: true, Headers: m}
	}
	eh := func(class string, coarse int, lit string, m map[string]string) Alt {
		return Alt{Class: class, Coarse: coarse, Set: true, Env: lit, HasHeaders: true, Headers: m}
	}
	g.Opt = []Alt{absent,
		oh("valid", 1, map[string]string{"k1": "o1"}),
		oh("valid", -1, map[string]string{"k2": "o2", "k3": "o3"}),
	}
	mk := func(p string) []Alt {
		as := []Alt{absent,
			eh("valid", 1, "k1="+p+"1", map[string]string{"k1": p + "1"}),
			// two pairs, a percent-encoded value ("header value URL-decoding" is documented)
			eh("valid", -1, "k"+p+"="+p+"%202,k1="+p+"3", map[string]string{"k" + p: p + " 2", "k1": p + "3"}),
			envBad("invalid", 2, "garbage"), // no "="
			envBad("empty", -1, ""),
		}
		if thorough {
			as = append(as,
				envBad("invalid", -1, "=v"),        // empty key
				envBad("invalid", -1, "bad key=v"), // space is not a token character
				envBad("invalid", -1, "k=%zz"),     // bad percent escape in the value
			)
		}
		return as
	}
	g.Spec, g.Gen = mk("s"), mk("g")
	return g
}

func compressionGroup(e *Exporter, thorough bool) *Group {
	g := &Group{Name: "compression", EnvSuffix: "COMPRESSION", Settings: []string{"compression"}}
	oc := func(class string, coarse int, name, means string) Alt {
		return Alt{Class: class, Coarse: coarse, Opts: []Opt{{Kind: "compression", S: name}}, HasComp: true, Comp: means}
	}
	ec := func(class string, coarse int, lit, means string) Alt {
		return Alt{Class: class, Coarse: coarse, Set: true, Env: lit, HasComp: true, Comp: means}
	}
	g.Opt = []Alt{absent, oc("valid(gzip)", 1, "gzip", "gzip"), oc("valid(none)", -1, "none", "none")}
	if !e.HTTP {
		// WithCompressor(<unsupported>): all three gRPC exporters document (in the error they
		// report) "using no compression as default": the option provides "none".
		g.Opt = append(g.Opt, oc("unsupported-name", -1, "snappy", "none"))
	}
	mk := func() []Alt {
		as := []Alt{absent, ec("valid(gzip)", 1, "gzip", "gzip"), ec("valid(none)", -1, "none", "none"),
			envBad("invalid", 2, "garbage"), envBad("empty", -1, "")}
		if thorough {
			as = append(as, envBad("invalid", -1, "GZIP"), envBad("invalid", -1, "gzip,none"))
		}
		return as
	}
	g.Spec, g.Gen = mk(), mk()
	return g
}

func timeoutGroup(thorough bool) *Group {
	g := &Group{Name: "timeout", EnvSuffix: "TIMEOUT", Settings: []string{"timeout"}}
	ot := func(coarse int, d time.Duration) Alt {
		return Alt{Class: "valid", Coarse: coarse, Opts: []Opt{{Kind: "timeout", D: d}}, HasTimeout: true, Timeout: d}
	}
	et := func(coarse int, lit string, d time.Duration) Alt {
		return Alt{Class: "valid", Coarse: coarse, Set: true, Env: lit, HasTimeout: true, Timeout: d}
	}
	// 10 s is the default: a source that provides exactly the default still provides it (a lower
	// source must not win because the value "looks unset")
	g.Opt = []Alt{absent, ot(1, 5*time.Second), ot(-1, 17*time.Second), ot(-1, defaultTimeout)}
	// environment timeouts are integers in milliseconds
	g.Spec = []Alt{absent, et(1, "29000", 29*time.Second), et(-1, "41000", 41*time.Second), et(-1, "10000", defaultTimeout), envBad("invalid", 2, "abc"), envBad("empty", -1, "")}
	g.Gen = []Alt{absent, et(1, "53000", 53*time.Second), et(-1, "67000", 67*time.Second), envBad("invalid", 2, "abc"), envBad("empty", -1, "")}
	// numeric text: the variables hold decimal millisecond counts; spellings that only a base-0 /
	// Go-literal parser accepts are unparsable (a zero-padded decimal is left out: the SDK alphabets
	// treat it as "decimal meaning or ignored", which this reference cannot express)
	for _, bad := range []string{"0x7530", "29_000"} {
		g.Spec = append(g.Spec, envBad("invalid(numeric literal)", -1, bad))
		g.Gen = append(g.Gen, envBad("invalid(numeric literal)", -1, bad))
	}
	if thorough {
		for _, bad := range []string{"10s", "1.5", "99999999999999999999"} {
			g.Spec = append(g.Spec, envBad("invalid", -1, bad))
			g.Gen = append(g.Gen, envBad("invalid", -1, bad))
		}
	}
	return g
}

const defaultTimeout = 10 * time.Second

var runStart time.Time

// Left returns, from one clock reading, the time left until deadline and the real time elapsed
// since the driver handed the current configuration point to Run.
func Left(deadline time.Time) (left, elapsed time.Duration) {
	now := time.Now()
	return deadline.Sub(now), now.Sub(runStart)
}

// ---------------------------------------------------------------------------- cases

// pick is the alternative chosen for each source of one group.
type pick struct{ opt, spec, gen int }

// kase is one configuration point: a pick for every active group (nil = all sources absent).
type kase struct {
	picks []*pick // indexed like run.groups
}

type run struct {
	r      *enum.R
	e      *Exporter
	groups []*Group
	// known minimal failing configurations per mismatching setting: a later point that
	// contains one of them and fails on the same setting is folded into its key without being
	// minimised again (the enumeration is simplest-first, so minimal ones come early)
	known map[string][]knownMin
	// job "order": the option lists of the groups are handed over last group first
	reverse bool
}

type knownMin struct {
	c   kase
	key string
}

// contains reports whether c has every non-absent alternative of min.
func contains(c, min kase) bool {
	for gi, mp := range min.picks {
		if mp == nil || (mp.opt == 0 && mp.spec == 0 && mp.gen == 0) {
			continue
		}
		p := c.picks[gi]
		if p == nil || (mp.opt != 0 && p.opt != mp.opt) || (mp.spec != 0 && p.spec != mp.spec) || (mp.gen != 0 && p.gen != mp.gen) {
			return false
		}
	}
	return true
}

func (x *run) envName(g *Group, specific bool) string {
	if specific {
		return "OTEL_EXPORTER_OTLP_" + x.e.Signal + "_" + g.EnvSuffix
	}
	return "OTEL_EXPORTER_OTLP_" + g.EnvSuffix
}

func (x *run) alts(c kase, gi int) (o, s, g *Alt) {
	grp := x.groups[gi]
	p := c.picks[gi]
	if p == nil {
		return &absent, &absent, &absent
	}
	return &grp.Opt[p.opt], &grp.Spec[p.spec], &grp.Gen[p.gen]
}

// expect is the reference precedence function.
func (x *run) expect(c kase) Resolved {
	want := Resolved{Host: x.e.DefaultHost, Path: x.e.SigPath, Headers: map[string]string{}, Compression: "none", Timeout: defaultTimeout}
	for gi, grp := range x.groups {
		o, s, g := x.alts(c, gi)
		switch grp.Name {
		case "endpoint":
			switch {
			case o.HasHost:
				want.Host = o.Host
			case s.HasHost:
				want.Host = s.Host
			case g.HasHost:
				want.Host = g.Host
			}
			if o.HasScheme {
				want.Scheme = o.Scheme
			}
			switch {
			case o.HasPath:
				want.Path = o.Path
				if o.Path == "" {
					// WithEndpointURL("scheme://host:port"): the option names no path. What it means is
					// not said (the signal's default path, or the URL's own "/"); what it cannot mean
					// is a path taken from a lower-precedence source
					want.Path, want.AltPath = x.e.SigPath, "/"
				}
			case s.HasPath: // verbatim, "/" when the URL has no path
				want.Path = s.Path
				if want.Path == "" {
					want.Path = "/"
				}
			case g.HasPath: // joined with exactly one "/"
				want.Path = strings.TrimRight(g.Path, "/") + x.e.SigPath
			}
		case "headers":
			for _, a := range []*Alt{o, s, g} {
				if a.HasHeaders {
					want.Headers = a.Headers
					break
				}
			}
		case "compression":
			for _, a := range []*Alt{o, s, g} {
				if a.HasComp {
					want.Compression = a.Comp
					break
				}
			}
		case "timeout":
			for _, a := range []*Alt{o, s, g} {
				if a.HasTimeout {
					want.Timeout = a.Timeout
					break
				}
			}
		}
	}
	return want
}

func hdrString(m map[string]string) string {
	ks := make([]string, 0, len(m))
	for k := range m {
		ks = append(ks, strings.ToLower(k))
	}
	sort.Strings(ks)
	var b strings.Builder
	for _, k := range ks {
		for kk, v := range m {
			if strings.ToLower(kk) == k {
				fmt.Fprintf(&b, "%s=%q;", k, v)
			}
		}
	}
	return b.String()
}

// apply puts the case into the process environment and returns the option list.
func (x *run) apply(c kase) []Opt {
	var opts []Opt
	for gi, grp := range x.groups {
		o, s, g := x.alts(c, gi)
		for _, v := range []struct {
			name string
			a    *Alt
		}{{x.envName(grp, true), s}, {x.envName(grp, false), g}} {
			if v.a.Set {
				os.Setenv(v.name, v.a.Env)
			} else {
				os.Unsetenv(v.name)
			}
		}
		if x.reverse {
			opts = append(append([]Opt{}, o.Opts...), opts...)
		} else {
			opts = append(opts, o.Opts...)
		}
	}
	return opts
}

type mismatch struct {
	setting string // "endpoint", "path", ..., "wire-endpoint", ..., "panic", "error", "wire-missing"
	msg     string
}

// eval runs the real code on one configuration point and compares it with the model.
func (x *run) eval(c kase) (Obs, []mismatch) {
	opts := x.apply(c)
	x.r.Eval()
	runStart = time.Now()
	obs := func() (o Obs) {
		defer func() {
			if p := recover(); p != nil {
				o.Panic = fmt.Sprint(p)
			}
		}()
		return x.e.Run(opts)
	}()
	want := x.expect(c)
	var mm []mismatch
	if obs.Panic != "" {
		return obs, []mismatch{{"panic", "constructor / export panicked: " + obs.Panic}}
	}
	if obs.Err != "" {
		return obs, []mismatch{{"error", "constructor failed: " + obs.Err}}
	}
	cmp := func(prefix string, got Resolved, wire bool) {
		bad := func(s, f string, a ...any) { mm = append(mm, mismatch{prefix + s, fmt.Sprintf(f, a...)}) }
		ok := func(s string) bool { // report the wire only where the resolved configuration was right
			for _, m := range mm {
				if m.setting == s {
					return false
				}
			}
			return true
		}
		if got.Host != want.Host && ok("endpoint") {
			bad("endpoint", "endpoint %q, reference %q", got.Host, want.Host)
		}
		if x.e.HTTP && got.Path != want.Path && !(want.AltPath != "" && (got.Path == want.AltPath || got.Path == "")) && ok("path") { // "" and "/" are the same request target
			bad("path", "URL path %q, reference %q", got.Path, want.Path)
		}
		if hdrString(got.Headers) != hdrString(want.Headers) && ok("headers") {
			bad("headers", "headers {%s}, reference {%s}", hdrString(got.Headers), hdrString(want.Headers))
		}
		if got.Compression != want.Compression && ok("compression") {
			bad("compression", "compression %s, reference %s", got.Compression, want.Compression)
		}
		if !ok("timeout") {
			return
		}
		if !wire {
			if got.Timeout != want.Timeout {
				bad("timeout", "timeout %v, reference %v", got.Timeout, want.Timeout)
			}
			return
		}
		// The client computed the deadline (now + timeout) at some moment between the start of
		// Run and the moment the seam saw the request, so the time left at the seam lies in
		// [timeout - elapsed, timeout]: exact, independent of machine load.
		switch {
		case obs.NoDeadline:
			bad("timeout", "request carries no deadline, reference timeout %v", want.Timeout)
		case got.Timeout > want.Timeout:
			bad("timeout", "request deadline %v away, reference timeout %v", got.Timeout, want.Timeout)
		case got.Timeout < want.Timeout-obs.Elapsed-time.Millisecond:
			bad("timeout", "request deadline only %v away %v after the start of the case, reference timeout %v", got.Timeout, obs.Elapsed, want.Timeout)
		}
	}
	cmp("", obs.Cfg, false)
	if !obs.HasWire {
		mm = append(mm, mismatch{"wire-missing", "the export never reached the scripted transport"})
		return obs, mm
	}
	cmp("wire-", obs.Wire, true)
	if x.e.HTTP && want.Scheme != "" && obs.Scheme != want.Scheme+"://" {
		mm = append(mm, mismatch{"wire-scheme", fmt.Sprintf("request sent with %q, the options ask for %q", obs.Scheme, want.Scheme+"://")})
	}
	if x.e.HTTP && obs.BodyGzip != (obs.Wire.Compression == "gzip") {
		mm = append(mm, mismatch{"wire-body", fmt.Sprintf("Content-Encoding %s but gzip body=%v", obs.Wire.Compression, obs.BodyGzip)})
	}
	return obs, mm
}

func has(mm []mismatch, setting string) *mismatch {
	for i := range mm {
		if mm[i].setting == setting {
			return &mm[i]
		}
	}
	return nil
}

// minimise greedily replaces sources by simpler alternatives while the mismatch on setting
// persists; the finding key is the description of the result, so that one defect gets one key
// no matter how many irrelevant sources were set in the case that first showed it.
func (x *run) minimise(c kase, setting string) kase {
	cur := kase{picks: make([]*pick, len(c.picks))}
	for i, p := range c.picks {
		if p != nil {
			q := *p
			cur.picks[i] = &q
		}
	}
	for changed := true; changed; {
		changed = false
		for gi, grp := range x.groups {
			p := cur.picks[gi]
			if p == nil {
				continue
			}
			for si, lst := range [][]Alt{grp.Opt, grp.Spec, grp.Gen} {
				field := []*int{&p.opt, &p.spec, &p.gen}[si]
				if *field == 0 {
					continue
				}
				cands := append([]int{0}, lst[*field].Reduce...)
				// an alternative of the same class with a smaller index is simpler, too
				for j := 1; j < *field; j++ {
					if lst[j].Class == lst[*field].Class {
						cands = append(cands, j)
					}
				}
				for _, cand := range cands {
					old := *field
					*field = cand
					if _, mm := x.eval(cur); has(mm, setting) != nil {
						changed = true
						break
					}
					*field = old
				}
			}
		}
	}
	return cur
}

func (x *run) describe(c kase, setting string) (key string, full map[string]any) {
	var parts []string
	full = map[string]any{}
	own := strings.TrimPrefix(setting, "wire-")
	for gi, grp := range x.groups {
		o, s, g := x.alts(c, gi)
		prefix := grp.Name + "."
		for _, st := range grp.Settings {
			if st == own {
				prefix = ""
			}
		}
		if o != &absent && o.Class != "absent" {
			parts = append(parts, prefix+"option="+o.Class)
			full[grp.Name+".option"] = o.Opts
		}
		if s.Class != "absent" {
			parts = append(parts, prefix+"specific="+s.Class)
			full[x.envName(grp, true)] = s.Env
		}
		if g.Class != "absent" {
			parts = append(parts, prefix+"generic="+g.Class)
			full[x.envName(grp, false)] = g.Env
		}
	}
	if len(parts) == 0 {
		parts = []string{"all sources absent"}
	}
	if x.reverse {
		parts = append(parts, "(option lists in reverse group order)")
	}
	return strings.Join(parts, " "), full
}

func outcome(o Obs) string {
	if o.Panic != "" {
		return "panic"
	}
	return fmt.Sprintf("%s|%s|%s|%s|%v|%v|%s%s|%s|%s|%s", o.Err, o.Cfg.Host, o.Cfg.Path, hdrString(o.Cfg.Headers), o.Cfg.Compression, o.Cfg.Timeout,
		o.Scheme, o.Wire.Host, o.Wire.Path, hdrString(o.Wire.Headers), o.Wire.Compression)
}

// one evaluates a case and records everything.
func (x *run) one(c kase) {
	obs, mm := x.eval(c)
	x.r.Outcome(outcome(obs))
	x.r.Sample(func() any {
		_, full := x.describe(c, "")
		return map[string]any{"exporter": x.e.Name, "configuration": full, "resolved": obs.Cfg, "wire": obs.Wire}
	})
	seen := map[string]bool{}
	for _, m := range mm {
		if seen[m.setting] {
			continue
		}
		seen[m.setting] = true
		here := x.r.Here()
		folded := false
		for _, km := range x.known[m.setting] {
			if contains(c, km.c) {
				x.r.Fail(km.key, nil, here, "")
				folded = true
				break
			}
		}
		if folded {
			continue
		}
		min := x.minimise(c, m.setting)
		mobs, mmm := x.eval(min)
		mk, mfull := x.describe(min, m.setting)
		_, ofull := x.describe(c, m.setting)
		msg := m.msg
		if mm2 := has(mmm, m.setting); mm2 != nil {
			msg = mm2.msg
		}
		if x.known == nil {
			x.known = map[string][]knownMin{}
		}
		x.known[m.setting] = append(x.known[m.setting], knownMin{min, m.setting + "|" + x.e.Name + "|" + mk})
		x.r.Fail(m.setting+"|"+x.e.Name+"|"+mk,
			map[string]any{"exporter": x.e.Name, "minimal_configuration": mfull, "resolved": mobs.Cfg, "wire": mobs.Wire, "reference": x.expect(min), "first_seen_in": ofull},
			here, "%s with %s: %s", x.e.Name, mk, msg)
	}
}

// ---------------------------------------------------------------------------- enumeration

func nonAbsent(c kase) int {
	n := 0
	for _, p := range c.picks {
		if p != nil {
			for _, v := range []int{p.opt, p.spec, p.gen} {
				if v != 0 {
					n++
				}
			}
		}
	}
	return n
}

// product enumerates every combination of alternatives of the listed groups (all other groups
// absent), fewest non-absent sources first. reduced restricts every source to the first
// representative of {absent, valid, invalid}.
func (x *run) product(active []int, reduced bool, fixed map[int]pick) {
	idx := func(lst []Alt) []int {
		var out []int
		for i, a := range lst {
			if !reduced || a.Coarse >= 0 {
				out = append(out, i)
			}
		}
		return out
	}
	cases := []kase{{picks: make([]*pick, len(x.groups))}}
	for gi, p := range fixed {
		q := p
		cases[0].picks[gi] = &q
	}
	for _, gi := range active {
		grp := x.groups[gi]
		var next []kase
		for _, c := range cases {
			for _, o := range idx(grp.Opt) {
				for _, s := range idx(grp.Spec) {
					for _, g := range idx(grp.Gen) {
						n := kase{picks: append([]*pick{}, c.picks...)}
						n.picks[gi] = &pick{o, s, g}
						next = append(next, n)
					}
				}
			}
		}
		cases = next
	}
	sort.SliceStable(cases, func(i, j int) bool { return nonAbsent(cases[i]) < nonAbsent(cases[j]) })
	for _, c := range cases {
		if x.r.Expired() {
			return
		}
		if !x.r.Want() {
			continue
		}
		x.r.Count("configuration_points", 1)
		x.one(c)
	}
}

func coarseTriples(g *Group) []pick {
	first := func(lst []Alt, coarse int) int {
		for i, a := range lst {
			if a.Coarse == coarse {
				return i
			}
		}
		panic("alphabet without class")
	}
	var out []pick
	for o := 0; o < 3; o++ {
		for s := 0; s < 3; s++ {
			for gg := 0; gg < 3; gg++ {
				out = append(out, pick{first(g.Opt, o), first(g.Spec, s), first(g.Gen, gg)})
			}
		}
	}
	return out
}

// Main is the body of every exporter harness.
func Main(e *Exporter) {
	thorough := os.Getenv("VERIF_TIER") == "thorough"
	groupNames := []string{"endpoint", "headers", "compression", "timeout"}
	names := []string{"single:endpoint", "single:headers", "single:compression", "single:timeout"}
	if thorough {
		for a := 0; a < len(groupNames); a++ {
			for b := a + 1; b < len(groupNames); b++ {
				names = append(names, "pairs:"+groupNames[a]+"x"+groupNames[b])
			}
		}
		for i := 0; i < 27; i++ {
			names = append(names, fmt.Sprintf("joint:%02d", i))
		}
	} else {
		names = append(names, "pairs")
	}
	names = append(names, "history:endpoint", "order", "foreign")
	enum.Jobs(names, func(job string) {
		r := enum.Start("C20", e.Name)
		defer r.Finish()
		for _, kv := range os.Environ() { // nothing but the case decides the configuration
			if k, _, _ := strings.Cut(kv, "="); strings.HasPrefix(k, "OTEL_") {
				os.Unsetenv(k)
			}
		}
		th := r.Thorough()
		x := &run{r: r, e: e, groups: []*Group{endpointGroup(e, th), headersGroup(th), compressionGroup(e, th), timeoutGroup(th)}}
		reduced := int64(1)
		for _, g := range x.groups {
			r.Bound(g.Name+"_alternatives(option,specific,generic)", []int{len(g.Opt), len(g.Spec), len(g.Gen)})
			n := [3]int64{}
			for si, lst := range [][]Alt{g.Opt, g.Spec, g.Gen} {
				for _, a := range lst {
					if a.Coarse >= 0 {
						n[si]++
					}
				}
			}
			reduced *= n[0] * n[1] * n[2]
		}
		r.Bound("settings_judged", []string{"endpoint", "path (HTTP)", "headers", "compression", "timeout"})
		r.Bound("pairs_alphabet", enum.Pick(r, "{absent, valid, invalid} per source", "full alphabet per source"))
		r.Section(job)
		switch {
		case strings.HasPrefix(job, "single:"):
			// one setting group, full alphabet of every source, the other groups absent
			for gi, g := range x.groups {
				if g.Name == strings.TrimPrefix(job, "single:") {
					x.product([]int{gi}, false, nil)
				}
			}
		case job == "history:endpoint":
			// every ordered pair of configurations built from the shared-literal endpoint values (and
			// the plain ones): the second exporter constructed in a process resolves as if it were
			// the first. Both points of a pair are judged by the same reference as everywhere else.
			g := x.groups[0]
			var sh []int
			for i, a := range g.Spec {
				if strings.HasPrefix(a.Host, "x") || i <= 1 { // the shared literals (hosts x1, x2), absent, the plain valid value
					sh = append(sh, i)
				}
			}
			var pts []kase
			for _, si := range sh {
				for _, gi := range sh {
					c := kase{picks: make([]*pick, len(x.groups))}
					c.picks[0] = &pick{0, si, gi}
					pts = append(pts, c)
				}
			}
			r.Bound("history_points", len(pts))
			r.Bound("history_ordered_pairs", len(pts)*len(pts))
			for _, a := range pts {
				for _, b := range pts {
					if x.r.Expired() {
						return
					}
					if !x.r.Want() {
						continue
					}
					x.r.Count("configuration_points", 2)
					x.one(a)
					x.one(b)
				}
			}
		case job == "order":
			x.order()
		case job == "foreign":
			x.foreign()
		case job == "pairs":
			// every pair of setting groups over {absent, valid, invalid} per source
			for a := 0; a < len(x.groups); a++ {
				for b := a + 1; b < len(x.groups); b++ {
					r.Section(job + ":" + x.groups[a].Name + "x" + x.groups[b].Name)
					x.product([]int{a, b}, true, nil)
				}
			}
		case strings.HasPrefix(job, "pairs:"):
			// one pair of setting groups, each with its full source product
			for a := 0; a < len(x.groups); a++ {
				for b := a + 1; b < len(x.groups); b++ {
					if job == "pairs:"+x.groups[a].Name+"x"+x.groups[b].Name {
						x.product([]int{a, b}, false, nil)
					}
				}
			}
		case strings.HasPrefix(job, "joint:"):
			// the full cross product of {absent, valid, invalid} for every source of every
			// setting group (sources that have no invalid value keep {absent, valid}), split by
			// the endpoint triple
			var i int
			fmt.Sscanf(job, "joint:%d", &i)
			r.Bound("joint_product_points", reduced)
			x.product([]int{1, 2, 3}, true, map[int]pick{0: coarseTriples(x.groups[0])[i]})
		}
	})
}

// ---------------------------------------------------------------------------- job "order"

// orderGroups is the alphabet of job "order": per setting group, option LISTS in which two
// options write the same field, in both orders, next to the single options they are made of;
// every environment source is {absent, valid[, valid(https)]}. The documented rule ("If both this
// option and WithEndpointURL are used, the last used option will take precedence"; an option
// that is passed takes precedence over the variables) is spelled out per list by hand:
// the declared meaning of a list is what its LAST writer of each field says.
// WithEndpointURL writes host, path and scheme ("sets the target endpoint URL (scheme, host, port,
// path)"), WithEndpoint the host only, WithURLPath the path only, WithInsecure the scheme only; an
// unparsable WithEndpointURL writes nothing ("the default value will be kept"). WithHeaders /
// WithCompression / WithTimeout replace the value of an earlier call.
// The scheme is judged (HTTP exporters, at the transport seam) only when an option writes it.
func orderGroups(e *Exporter) []*Group {
	port := "4317"
	if e.HTTP {
		port = "4318"
	}
	h := func(n string) string { return n + ".example:" + port }
	path := func(p string) string {
		if e.HTTP {
			return p
		}
		return ""
	}
	type w struct { // one option and what it writes
		name               string
		opt                Opt
		host, path, scheme string
		wHost, wPath       bool
	}
	ep := w{name: "WithEndpoint", opt: Opt{Kind: "endpoint", S: h("o1")}, host: h("o1"), wHost: true}
	ep2 := w{name: "WithEndpoint(2nd)", opt: Opt{Kind: "endpoint", S: h("o5")}, host: h("o5"), wHost: true}
	up := w{name: "WithURLPath", opt: Opt{Kind: "urlPath", S: "/opt/path"}, path: "/opt/path", wPath: true}
	up2 := w{name: "WithURLPath(2nd)", opt: Opt{Kind: "urlPath", S: "/opt/two"}, path: "/opt/two", wPath: true}
	eu := w{name: "WithEndpointURL", opt: Opt{Kind: "endpointURL", S: "http://" + h("o2") + path("/ou/path")}, host: h("o2"), path: "/ou/path", scheme: "http", wHost: true, wPath: true}
	eus := w{name: "WithEndpointURL(https)", opt: Opt{Kind: "endpointURL", S: "https://" + h("o3") + path("/ou3")}, host: h("o3"), path: "/ou3", scheme: "https", wHost: true, wPath: true}
	bad := w{name: "WithEndpointURL(invalid)", opt: Opt{Kind: "endpointURL", S: badURL1}}
	ins := w{name: "WithInsecure", opt: Opt{Kind: "insecure"}, scheme: "http"}
	var epAlts []Alt
	index := map[string]int{}
	seq := func(coarse int, ws ...w) {
		a := Alt{Coarse: coarse}
		var names []string
		for _, o := range ws {
			names = append(names, o.name)
			a.Opts = append(a.Opts, o.opt)
			if o.wHost {
				a.HasHost, a.Host = true, o.host
			}
			if o.wPath && e.HTTP {
				a.HasPath, a.Path = true, o.path
			}
			if o.scheme != "" {
				a.HasScheme, a.Scheme = true, o.scheme
			}
			if len(ws) > 1 {
				a.Reduce = append(a.Reduce, index[o.name])
			}
		}
		a.Class = strings.Join(names, ",")
		index[a.Class] = len(epAlts) + 1
		epAlts = append(epAlts, a)
	}
	for _, o := range []w{ep, ep2, eu, eus, bad, ins} {
		seq(1, o)
	}
	both := func(a, b w) { seq(-1, a, b); seq(-1, b, a) }
	both(ep, ep2)
	both(eu, eus)
	both(ep, eu) // also part of the "single:endpoint" alphabet; here with the https variables and the scheme
	both(ep, eus)
	both(ins, eus)
	both(ins, eu)
	both(ins, ep)
	both(ep, bad)
	both(eu, bad)
	both(eus, bad)
	if e.HTTP {
		seq(1, up)
		seq(1, up2)
		both(up, up2)
		both(up, eu)
		both(up, eus)
		both(up, ep)
		both(up, bad)
		both(up, ins)
		// three writers: the URL in every position
		seq(-1, eu, ep, up)
		seq(-1, ep, eu, up)
		seq(-1, ep, up, eu)
		seq(-1, eus, ins, up)
		seq(-1, ins, up, eus)
	}
	g0 := &Group{Name: "endpoint", EnvSuffix: "ENDPOINT", Settings: []string{"endpoint"}, Opt: append([]Alt{absent}, epAlts...)}
	if e.HTTP {
		g0.Settings = []string{"endpoint", "path", "scheme"}
	}
	mk := func(p string) []Alt {
		return []Alt{absent,
			envURL("valid", 1, "http://"+h(p+"1")+path("/"+p+"/path"), h(p+"1"), path("/"+p+"/path")),
			envURL("valid(https)", -1, "https://"+h(p+"3")+path("/"+p+"3"), h(p+"3"), path("/"+p+"3"))}
	}
	g0.Spec, g0.Gen = mk("s"), mk("g")

	g1 := &Group{Name: "headers", EnvSuffix: "HEADERS", Settings: []string{"headers"}}
	hs := []map[string]string{{"k1": "o1"}, {"k2": "o2"}, {"k1": "o9", "k3": "o3"}}
	hn := []string{"WithHeaders(k1)", "WithHeaders(k2)", "WithHeaders(k1,k3)"}
	g1.Opt = []Alt{absent}
	for i := range hs {
		g1.Opt = append(g1.Opt, Alt{Class: hn[i], Coarse: 1, Opts: []Opt{{Kind: "headers", H: hs[i]}}, HasHeaders: true, Headers: hs[i]})
	}
	for i := range hs {
		for j := range hs {
			if i != j { // the later map REPLACES the earlier one (disjoint keys: k1 / k2; overlapping: k1 / k1,k3)
				g1.Opt = append(g1.Opt, Alt{Class: hn[i] + "," + hn[j], Coarse: -1, Opts: []Opt{{Kind: "headers", H: hs[i]}, {Kind: "headers", H: hs[j]}},
					HasHeaders: true, Headers: hs[j], Reduce: []int{i + 1, j + 1}})
			}
		}
	}
	eh := func(p string) []Alt {
		return []Alt{absent, {Class: "valid", Coarse: 1, Set: true, Env: "k1=" + p + "1,k" + p + "=" + p + "2", HasHeaders: true, Headers: map[string]string{"k1": p + "1", "k" + p: p + "2"}}}
	}
	g1.Spec, g1.Gen = eh("s"), eh("g")

	g2 := &Group{Name: "compression", EnvSuffix: "COMPRESSION", Settings: []string{"compression"}}
	oc := func(class string, coarse int, means string, red []int, names ...string) Alt {
		a := Alt{Class: class, Coarse: coarse, HasComp: true, Comp: means, Reduce: red}
		for _, n := range names {
			a.Opts = append(a.Opts, Opt{Kind: "compression", S: n})
		}
		return a
	}
	g2.Opt = []Alt{absent, oc("valid(gzip)", 1, "gzip", nil, "gzip"), oc("valid(none)", 1, "none", nil, "none"),
		oc("gzip,none", -1, "none", []int{1, 2}, "gzip", "none"), oc("none,gzip", -1, "gzip", []int{1, 2}, "none", "gzip"),
		oc("gzip,none,gzip", -1, "gzip", []int{4, 1}, "gzip", "none", "gzip")}
	ec := func() []Alt {
		return []Alt{absent, {Class: "valid(gzip)", Coarse: 1, Set: true, Env: "gzip", HasComp: true, Comp: "gzip"},
			{Class: "valid(none)", Coarse: -1, Set: true, Env: "none", HasComp: true, Comp: "none"}}
	}
	g2.Spec, g2.Gen = ec(), ec()

	g3 := &Group{Name: "timeout", EnvSuffix: "TIMEOUT", Settings: []string{"timeout"}}
	ot := func(class string, coarse int, red []int, ds ...time.Duration) Alt {
		a := Alt{Class: class, Coarse: coarse, HasTimeout: true, Timeout: ds[len(ds)-1], Reduce: red}
		for _, d := range ds {
			a.Opts = append(a.Opts, Opt{Kind: "timeout", D: d})
		}
		return a
	}
	g3.Opt = []Alt{absent, ot("WithTimeout(5s)", 1, nil, 5*time.Second), ot("WithTimeout(17s)", 1, nil, 17*time.Second), ot("WithTimeout(default)", -1, nil, defaultTimeout),
		ot("WithTimeout(5s),WithTimeout(17s)", -1, []int{1, 2}, 5*time.Second, 17*time.Second),
		ot("WithTimeout(17s),WithTimeout(5s)", -1, []int{1, 2}, 17*time.Second, 5*time.Second),
		// a later call with exactly the default still overrides the earlier call (and the variables)
		ot("WithTimeout(5s),WithTimeout(default)", -1, []int{1, 3}, 5*time.Second, defaultTimeout),
		ot("WithTimeout(default),WithTimeout(5s)", -1, []int{1, 3}, defaultTimeout, 5*time.Second)}
	et := func(lit string, d time.Duration) []Alt {
		return []Alt{absent, {Class: "valid", Coarse: 1, Set: true, Env: lit, HasTimeout: true, Timeout: d}}
	}
	g3.Spec, g3.Gen = et("29000", 29*time.Second), et("53000", 53*time.Second)
	return []*Group{g0, g1, g2, g3}
}

// order runs job "order": (1) per setting group the full product option list x specific x
// generic, (2) every pair of groups over the single options x {absent, valid} variables with the
// option lists handed over in both group orders (an option of one group between / after the
// options of another must not disturb it).
func (x *run) order() {
	r := x.r
	x.groups = orderGroups(x.e)
	for _, g := range x.groups {
		r.Bound("order_"+g.Name+"_alternatives(option lists,specific,generic)", []int{len(g.Opt), len(g.Spec), len(g.Gen)})
		var lists []string
		for _, a := range g.Opt[1:] {
			lists = append(lists, a.Class)
		}
		r.Bound("order_"+g.Name+"_option_lists", lists)
	}
	for gi, g := range x.groups {
		r.Section("order:" + g.Name)
		x.product([]int{gi}, false, nil)
	}
	for _, rev := range []bool{false, true} {
		x.reverse = rev
		x.known = nil
		for a := 0; a < len(x.groups); a++ {
			for b := a + 1; b < len(x.groups); b++ {
				r.Section(fmt.Sprintf("order:%sx%s reverse=%v", x.groups[a].Name, x.groups[b].Name, rev))
				x.product([]int{a, b}, true, nil)
			}
		}
	}
	x.reverse = false
}

// ---------------------------------------------------------------------------- job "foreign"

type foreignVar struct{ name, value string }

// foreignVars lists variables that are not a source of this exporter's five settings: the
// signal-specific variables of the two other signals, OTLP variables the Go exporters do not
// implement, near misses of the real names, variables of other exporters and of the SDK
// processors. Every value would be visible in the resolved configuration if it were read.
func foreignVars(e *Exporter) []foreignVar {
	var out []foreignVar
	vals := map[string][]string{
		"ENDPOINT":    {"http://f1.example:9999/f/path", "https://f2.example:9999/f2"},
		"HEADERS":     {"kf=foreign,k1=foreign"},
		"COMPRESSION": {"gzip", "none"},
		"TIMEOUT":     {"77000"},
		"INSECURE":    {"true", "false"},
		"PROTOCOL":    {"http/json"},
	}
	suffixes := []string{"ENDPOINT", "HEADERS", "COMPRESSION", "TIMEOUT", "INSECURE", "PROTOCOL"}
	add := func(name, suffix string) {
		for _, v := range vals[suffix] {
			out = append(out, foreignVar{name, v})
		}
	}
	singular := map[string]string{"TRACES": "TRACE", "METRICS": "METRIC", "LOGS": "LOG"}
	for _, sig := range []string{"TRACES", "METRICS", "LOGS"} {
		for _, suf := range suffixes {
			if sig != e.Signal {
				add("OTEL_EXPORTER_OTLP_"+sig+"_"+suf, suf)
			}
		}
	}
	for _, suf := range suffixes[:4] {
		add("OTEL_EXPORTER_OTLP_"+singular[e.Signal]+"_"+suf, suf)        // near miss: singular signal name
		add("OTEL_EXPORTER_"+e.Signal+"_"+suf, suf)                       // near miss: no protocol
		add("OTEL_EXPORTER_"+suf, suf)                                    // near miss: neither
		add("OTEL_OTLP_"+suf, suf)                                        // near miss
		add(strings.ToLower("OTEL_EXPORTER_OTLP_"+e.Signal+"_"+suf), suf) // variable names are case sensitive
		add("OTEL_EXPORTER_OTLP_"+e.Signal+"_"+suf+"S", suf)              // near miss: trailing letter
	}
	add("OTEL_EXPORTER_OTLP_PROTOCOL", "PROTOCOL")
	add("OTEL_EXPORTER_OTLP_"+e.Signal+"_PROTOCOL", "PROTOCOL")
	add("OTEL_EXPORTER_ZIPKIN_ENDPOINT", "ENDPOINT")
	add("OTEL_EXPORTER_ZIPKIN_TIMEOUT", "TIMEOUT")
	add("OTEL_EXPORTER_JAEGER_ENDPOINT", "ENDPOINT")
	add("OTEL_EXPORTER_JAEGER_TIMEOUT", "TIMEOUT")
	for _, n := range []string{"OTEL_BSP_EXPORT_TIMEOUT", "OTEL_BLRP_EXPORT_TIMEOUT", "OTEL_METRIC_EXPORT_TIMEOUT", "OTEL_BSP_SCHEDULE_DELAY", "OTEL_METRIC_EXPORT_INTERVAL"} {
		add(n, "TIMEOUT")
	}
	return out
}

// foreignOutcome is everything judged about one observation except the request deadline.
func foreignOutcome(o Obs) string {
	return fmt.Sprintf("%s wire=%v calls=%d gzipbody=%v", outcome(o), o.HasWire, o.WireCalls, o.BodyGzip)
}

// foreign runs job "foreign": for a handful of base configurations (nothing set; every
// setting from the signal-specific variables / the generic variables / both / options), every
// foreign variable alone and all of them at once: the observation (resolved configuration, wire
// request) must be the one of the base configuration with the variable unset.
func (x *run) foreign() {
	r := x.r
	fv := foreignVars(x.e)
	var names []string
	for _, v := range fv {
		if len(names) == 0 || names[len(names)-1] != v.name {
			names = append(names, v.name)
		}
	}
	r.Bound("foreign_variables", names)
	r.Bound("foreign_variable_values", len(fv))
	first := func(lst []Alt) int {
		for i, a := range lst {
			if a.Coarse == 1 {
				return i
			}
		}
		panic("alphabet without a valid class")
	}
	base := func(o, s, g bool) kase {
		c := kase{picks: make([]*pick, len(x.groups))}
		for gi, grp := range x.groups {
			p := &pick{}
			if o {
				p.opt = first(grp.Opt)
			}
			if s {
				p.spec = first(grp.Spec)
			}
			if g {
				p.gen = first(grp.Gen)
			}
			c.picks[gi] = p
		}
		return c
	}
	bases := []kase{base(false, false, false), base(false, true, false), base(false, false, true), base(false, true, true), base(true, false, false), base(true, true, true)}
	r.Bound("foreign_base_configurations", []string{"all absent", "specific=valid", "generic=valid", "specific+generic", "options", "options+specific+generic"})
	for bi, b := range bases {
		r.Section(fmt.Sprintf("foreign:base%d", bi))
		obs0, _ := x.eval(b)
		out0 := foreignOutcome(obs0)
		_, bfull := x.describe(b, "")
		check := func(set []foreignVar, keyName string) {
			if r.Expired() || !r.Want() {
				return
			}
			r.Count("configuration_points", 1)
			for _, v := range set {
				os.Setenv(v.name, v.value)
			}
			obs, _ := x.eval(b)
			for _, v := range set {
				os.Unsetenv(v.name)
			}
			out := foreignOutcome(obs)
			r.Outcome(out)
			env := map[string]string{}
			for _, v := range set {
				env[v.name] = v.value
			}
			cas := map[string]any{"exporter": x.e.Name, "base_configuration": bfull, "foreign": env, "resolved": obs.Cfg, "wire": obs.Wire,
				"resolved_without": obs0.Cfg, "wire_without": obs0.Wire}
			r.Sample(func() any { return cas })
			switch {
			case out != out0:
				r.FailHere("foreign|"+x.e.Name+"|"+keyName, cas, "%s: setting %v changes the exporter: %s, without it %s", x.e.Name, env, out, out0)
			case obs.HasWire && !obs.NoDeadline && (obs.Wire.Timeout > obs0.Cfg.Timeout || obs.Wire.Timeout < obs0.Cfg.Timeout-obs.Elapsed-time.Millisecond):
				r.FailHere("foreign|"+x.e.Name+"|"+keyName, cas, "%s: setting %v changes the request deadline: %v away %v after the start of the case, timeout without it %v",
					x.e.Name, env, obs.Wire.Timeout, obs.Elapsed, obs0.Cfg.Timeout)
			}
		}
		for _, v := range fv {
			check([]foreignVar{v}, v.name)
		}
		var all []foreignVar // all at once: the first value of every name
		for i, v := range fv {
			if i == 0 || fv[i-1].name != v.name {
				all = append(all, v)
			}
		}
		check(all, "all foreign variables at once")
	}
}

// ---------------------------------------------------------------------------- scripted HTTP seam

// Transport is the scripted http.RoundTripper / proxy hook of the HTTP harnesses: it records
// the request and answers 200 without touching the network.
type Transport struct {
	Obs *Obs
}

var skipHeader = map[string]bool{"User-Agent": true, "Content-Type": true, "Content-Encoding": true, "Content-Length": true, "Accept-Encoding": true}

// See records one outgoing request.
func (t *Transport) See(req *http.Request) {
	o := t.Obs
	o.WireCalls++
	o.HasWire = true
	o.Scheme = req.URL.Scheme + "://"
	o.Wire.Host = req.URL.Host
	o.Wire.Path = req.URL.Path
	o.Wire.Headers = map[string]string{}
	for k, v := range req.Header {
		if !skipHeader[k] {
			o.Wire.Headers[k] = strings.Join(v, ",")
		}
	}
	o.Wire.Compression = "none"
	if ce := req.Header.Get("Content-Encoding"); ce != "" {
		o.Wire.Compression = ce
	}
	if dl, ok := req.Context().Deadline(); ok {
		o.Wire.Timeout, o.Elapsed = Left(dl)
	} else {
		o.NoDeadline = true
	}
	if req.Body != nil {
		b, _ := io.ReadAll(req.Body)
		req.Body.Close()
		o.BodyGzip = bytes.HasPrefix(b, []byte{0x1f, 0x8b})
	}
}

func (t *Transport) RoundTrip(req *http.Request) (*http.Response, error) {
	t.See(req)
	return &http.Response{Status: "200 OK", StatusCode: 200, Proto: "HTTP/1.1", ProtoMajor: 1, ProtoMinor: 1,
		Header: http.Header{}, Body: http.NoBody, Request: req}, nil
}
